package main

import (
	"bytes"
	"context"
	"encoding/json"
	"fmt"
	"os"
	"os/exec"
	"path/filepath"
	"strings"
	"time"
)

// runOverlayTest injects testFile (a Go _test.go source whose first line comment names the
// target directory:  // dir: internal/client ) into the repo via -overlay and runs it.
// The test must fail (exit != 0) iff the violation reproduces.
func runOverlayTest(repo, testFile string) (string, bool) {
	src, err := os.ReadFile(testFile)
	if err != nil {
		return err.Error(), false
	}
	dir := "."
	for _, l := range strings.Split(string(src), "\n") {
		if strings.HasPrefix(l, "// dir:") {
			dir = strings.TrimSpace(strings.TrimPrefix(l, "// dir:"))
			break
		}
	}
	target := filepath.Join(repo, dir, "zz_verif_replay_test.go")
	ov := map[string]map[string]string{"Replace": {target: testFile}}
	ovData, _ := json.Marshal(ov)
	ovFile := testFile + ".overlay.json"
	os.WriteFile(ovFile, ovData, 0o644)
	defer os.Remove(ovFile)
	ctx, cancel := context.WithTimeout(context.Background(), 120*time.Second)
	defer cancel()
	cmd := exec.CommandContext(ctx, "go", "test", "-overlay", ovFile, "-vet=off", "-timeout", "60s", "-count=1", "-run", "^TestVerifReplay$", "-v", "./"+dir)
	cmd.Dir = repo
	cmd.Env = append(os.Environ(), "GOFLAGS=-mod=mod", "GOPROXY=off", "GOSUMDB=off", "GOTOOLCHAIN=local")
	var out bytes.Buffer
	cmd.Stdout = &out
	cmd.Stderr = &out
	err = cmd.Run()
	o := out.String()
	reproduced := err != nil && strings.Contains(o, "VERIF-REPRODUCED")
	return o, reproduced
}

func modelString(model map[string]string, prefix string) (string, bool) {
	for k, v := range model {
		if strings.HasPrefix(k, prefix) {
			if s, ok := smtStringValue(v); ok {
				return s, true
			}
		}
	}
	return "", false
}

func init() {
	replayDrivers["goat.parseGrpcTimeout"] = func(ex *Exec, ob *Obligation, model map[string]string, repo, base string) (string, bool, string) {
		in, ok := modelString(model, "p.timeout_")
		if !ok {
			return "model has no value for timeout", false, ""
		}
		test := fmt.Sprintf(`// dir: .
package goat

import (
	"math/big"
	"regexp"
	"testing"
	"time"
)

// Replay of a goatvc counterexample for %s against the real parseGrpcTimeout.
func TestVerifReplay(t *testing.T) {
	in := %q
	d, ok := parseGrpcTimeout(in)
	t.Logf("parseGrpcTimeout(%%q) = (%%d, %%v)", in, int64(d), ok)
	du := regexp.MustCompile("^[0-9]+[HMSmun]$")
	g := regexp.MustCompile("^[0-9]{1,8}[HMSmun]$")
	units := map[byte]time.Duration{'H': time.Hour, 'M': time.Minute, 'S': time.Second, 'm': time.Millisecond, 'u': time.Microsecond, 'n': time.Nanosecond}
	if !du.MatchString(in) {
		if ok {
			t.Fatalf("VERIF-REPRODUCED: malformed value %%q accepted as %%d ns", in, int64(d))
		}
		return
	}
	n, _ := new(big.Int).SetString(in[:len(in)-1], 10)
	want := new(big.Int).Mul(n, big.NewInt(int64(units[in[len(in)-1]])))
	max := big.NewInt(1<<63 - 1)
	if want.Cmp(max) > 0 {
		want = max
	}
	if g.MatchString(in) && !ok {
		t.Fatalf("VERIF-REPRODUCED: grammar value %%q rejected", in)
	}
	if ok && big.NewInt(int64(d)).Cmp(want) != 0 {
		t.Fatalf("VERIF-REPRODUCED: %%q read as %%d ns, exact saturating value is %%s ns", in, int64(d), want)
	}
}
`, ob.Name, in)
		tf := base + "_replay_test.go.txt"
		os.WriteFile(tf, []byte(test), 0o644)
		out, rep := runOverlayTest(repo, tf)
		return out, rep, tf
	}
}
