package main

import (
	"bytes"
	"context"
	"encoding/json"
	"fmt"
	"os"
	"os/exec"
	"path/filepath"
	"strings"
	"time"
)

// runOverlayTest injects testFile (a Go _test.go source whose first line comment names the
// target directory:  // dir: internal/client ) into the repo via -overlay and runs it.
// The test must fail (exit != 0) iff the violation reproduces.
func runOverlayTest(repo, testFile string) (string, bool) {
	src, err := os.ReadFile(testFile)
	if err != nil {
		return err.Error(), false
	}
	dir := "."
	for _, l := range strings.Split(string(src), "\n") {
		if strings.HasPrefix(l, "// dir:") {
			dir = strings.TrimSpace(strings.TrimPrefix(l, "// dir:"))
			break
		}
	}
	target := filepath.Join(repo, dir, "zz_verif_replay_test.go")
	repl := map[string]string{target: testFile}
	// optional extra overlay files:  // ==== extra-file: <path relative to the repo> ====
	parts := strings.Split(string(src), "\n// ==== extra-file: ")
	var tmpFiles []string
	if len(parts) > 1 {
		main := testFile + ".main.go.txt"
		os.WriteFile(main, []byte(parts[0]), 0o644)
		tmpFiles = append(tmpFiles, main)
		repl[target] = main
		for i, p := range parts[1:] {
			nl := strings.Index(p, "\n")
			if nl < 0 {
				continue
			}
			rel := strings.TrimSpace(strings.TrimSuffix(strings.TrimSpace(p[:nl]), "===="))
			f := fmt.Sprintf("%s.extra%d.go.txt", testFile, i)
			os.WriteFile(f, []byte(p[nl+1:]), 0o644)
			tmpFiles = append(tmpFiles, f)
			repl[filepath.Join(repo, rel)] = f
		}
	}
	// optional schedule hooks:  // inject: <file relative to repo> :: <anchor text> :: <statement inserted before the anchor>
	// builds an overlay copy of the real source file with one extra statement (a scheduling point)
	for i, l := range strings.Split(string(src), "\n") {
		if !strings.HasPrefix(l, "// inject:") {
			continue
		}
		f := strings.SplitN(strings.TrimPrefix(l, "// inject:"), "::", 3)
		if len(f) != 3 {
			continue
		}
		unesc := strings.NewReplacer("\\n", "\n", "\\t", "\t")
		rel, anchor, ins := strings.TrimSpace(f[0]), unesc.Replace(strings.TrimSpace(f[1])), unesc.Replace(strings.TrimSpace(f[2]))
		orig, err := os.ReadFile(filepath.Join(repo, rel))
		if err != nil || !strings.Contains(string(orig), anchor) {
			return "inject: anchor not found in " + rel + ": " + anchor, false
		}
		patched := strings.Replace(string(orig), anchor, ins+"\n"+anchor, 1)
		pf := fmt.Sprintf("%s.inject%d.go.txt", testFile, i)
		os.WriteFile(pf, []byte(patched), 0o644)
		tmpFiles = append(tmpFiles, pf)
		repl[filepath.Join(repo, rel)] = pf
	}
	defer func() {
		for _, f := range tmpFiles {
			os.Remove(f)
		}
	}()
	ov := map[string]map[string]string{"Replace": repl}
	ovData, _ := json.Marshal(ov)
	ovFile := testFile + ".overlay.json"
	os.WriteFile(ovFile, ovData, 0o644)
	defer os.Remove(ovFile)
	ctx, cancel := context.WithTimeout(context.Background(), 120*time.Second)
	defer cancel()
	cmd := exec.CommandContext(ctx, "go", "test", "-overlay", ovFile, "-vet=off", "-timeout", "60s", "-count=1", "-run", "^TestVerifReplay$", "-v", "./"+dir)
	cmd.Dir = repo
	cmd.Env = append(os.Environ(), "GOFLAGS=-mod=mod", "GOPROXY=off", "GOSUMDB=off", "GOTOOLCHAIN=local")
	var out bytes.Buffer
	cmd.Stdout = &out
	cmd.Stderr = &out
	err = cmd.Run()
	o := out.String()
	reproduced := err != nil && strings.Contains(o, "VERIF-REPRODUCED")
	return o, reproduced
}

func modelString(model map[string]string, prefix string) (string, bool) {
	for k, v := range model {
		if strings.HasPrefix(k, prefix) {
			if s, ok := smtStringValue(v); ok {
				return s, true
			}
		}
	}
	return "", false
}

// ---------- template drivers ----------
//
// /verif/replay/drivers/*.tmpl: a Go test source with a header
//   // func: client.errorIfDone
//   // dir: internal/client
//   // probe hasTrailer: rpc.Trailer != nil        (spec expression evaluated in the function's entry state)
// Occurrences of {{name}} in the body are replaced by the Go literal of the probe's model value.

type tmplDriver struct {
	Func   string
	Dir    string
	Probes [][2]string
	Body   string
	File   string
}

var tmplDrivers = map[string]*tmplDriver{}

func loadTemplateDrivers() {
	files, _ := filepath.Glob(filepath.Join(verifDir, "replay", "drivers", "*.tmpl"))
	for _, f := range files {
		data, err := os.ReadFile(f)
		if err != nil {
			continue
		}
		d := &tmplDriver{File: f, Dir: "."}
		var body []string
		for _, l := range strings.Split(string(data), "\n") {
			switch {
			case strings.HasPrefix(l, "// func:"):
				d.Func = strings.TrimSpace(strings.TrimPrefix(l, "// func:"))
			case strings.HasPrefix(l, "// dir:"):
				d.Dir = strings.TrimSpace(strings.TrimPrefix(l, "// dir:"))
				body = append(body, l)
			case strings.HasPrefix(l, "// probe "):
				r := strings.TrimPrefix(l, "// probe ")
				i := strings.Index(r, ":")
				if i > 0 {
					d.Probes = append(d.Probes, [2]string{strings.TrimSpace(r[:i]), strings.TrimSpace(r[i+1:])})
				}
			default:
				body = append(body, l)
			}
		}
		d.Body = strings.Join(body, "\n")
		if d.Func != "" {
			tmplDrivers[d.Func] = d
		}
	}
}

// probeTerms evaluates a driver's probes in the entry state of the function under verification.
func (ex *Exec) probeTerms(st *State, fr *Frame, key string) {
	d := tmplDrivers[key]
	if d == nil {
		return
	}
	m := map[string]Val{}
	for _, p := range d.Probes {
		e, err := parseSpecExpr(p[1])
		if err != nil {
			ex.specError("driver %s probe %s: %v", d.File, p[0], err)
			continue
		}
		m[p[0]] = ex.evalSpec(st, fr, e, nil)
	}
	ex.probes[key] = m
}

func goLiteral(v Val, modelVal string) string {
	modelVal = strings.TrimSpace(modelVal)
	switch v.S {
	case "Bool":
		return modelVal
	case "String":
		if s, ok := smtStringValue(modelVal); ok {
			return fmt.Sprintf("%q", s)
		}
		return "\"\""
	}
	// Int, possibly (- n)
	if strings.HasPrefix(modelVal, "(-") {
		return "-" + strings.TrimSpace(strings.Trim(modelVal[2:], " ()"))
	}
	return modelVal
}

// runTemplateDriver asks the solver for the probe values in the failing model and runs the test.
func (ex *Exec) runTemplateDriver(ob *Obligation, repo, base string) (string, bool, string, map[string]string) {
	d := tmplDrivers[ob.Func]
	probes := ob.Probes
	if d == nil || probes == nil {
		return "", false, "", nil
	}
	var names, terms []string
	for _, p := range d.Probes {
		if v, ok := probes[p[0]]; ok && !v.isComposite() {
			names = append(names, p[0])
			terms = append(terms, v.T)
		}
	}
	// rebuild the script so that constants used only by probe terms are declared
	extra := ""
	for _, t := range terms {
		extra += "(assert (= " + t + " " + t + "))\n"
	}
	save := ob.PC
	ob.PC = append(append([]string(nil), ob.PC...))
	script := ex.scriptOpts(ob, true, extra, ob.Hunted)
	ob.PC = save
	script += "(get-value (" + strings.Join(terms, " ") + "))\n"
	var out string
	for _, w := range []string{"z3new", "z3", "cvc5"} {
		n, a := solverCmd(w, 20*time.Second, 0)
		r := runSolver(n, a, script, 20*time.Second, false)
		if r.status == "sat" {
			out = r.out
			break
		}
	}
	if out == "" {
		return "solver did not return a model for the probes", false, "", nil
	}
	// parse ((term value) (term value) ...)
	idx := strings.Index(out, "((")
	if idx < 0 {
		return "cannot parse get-value output: " + clip(out, 300), false, "", nil
	}
	pairs := splitFormsTop(splitForms(out[idx:])[0])
	vals := map[string]string{}
	body := d.Body
	for i, pr := range pairs {
		if i >= len(names) {
			break
		}
		// pr = (term value): value is the last top-level item
		inner := strings.TrimSpace(pr[1 : len(pr)-1])
		t := terms[i]
		val := strings.TrimSpace(strings.TrimPrefix(inner, t))
		if !strings.HasPrefix(inner, t) {
			// fall back: take the last token / form
			fs := splitSorts(inner)
			val = fs[len(fs)-1]
		}
		lit := goLiteral(probes[names[i]], val)
		vals[names[i]] = lit
		body = strings.ReplaceAll(body, "{{"+names[i]+"}}", lit)
	}
	body = strings.ReplaceAll(body, "{{obligation}}", ob.Name)
	tf := base + "_replay_test.go.txt"
	os.WriteFile(tf, []byte(body), 0o644)
	o, rep := runOverlayTest(repo, tf)
	return o, rep, tf, vals
}

func init() {
	replayDrivers["goat.parseGrpcTimeout"] = func(ex *Exec, ob *Obligation, model map[string]string, repo, base string) (string, bool, string) {
		in, ok := modelString(model, "p.timeout_")
		if !ok {
			return "model has no value for timeout", false, ""
		}
		test := fmt.Sprintf(`// dir: .
package goat

import (
	"math/big"
	"regexp"
	"testing"
	"time"
)

// Replay of a goatvc counterexample for %s against the real parseGrpcTimeout.
func TestVerifReplay(t *testing.T) {
	in := %q
	d, ok := parseGrpcTimeout(in)
	t.Logf("parseGrpcTimeout(%%q) = (%%d, %%v)", in, int64(d), ok)
	du := regexp.MustCompile("^[0-9]+[HMSmun]$")
	g := regexp.MustCompile("^[0-9]{1,8}[HMSmun]$")
	units := map[byte]time.Duration{'H': time.Hour, 'M': time.Minute, 'S': time.Second, 'm': time.Millisecond, 'u': time.Microsecond, 'n': time.Nanosecond}
	if !du.MatchString(in) {
		if ok {
			t.Fatalf("VERIF-REPRODUCED: malformed value %%q accepted as %%d ns", in, int64(d))
		}
		return
	}
	n, _ := new(big.Int).SetString(in[:len(in)-1], 10)
	want := new(big.Int).Mul(n, big.NewInt(int64(units[in[len(in)-1]])))
	max := big.NewInt(1<<63 - 1)
	if want.Cmp(max) > 0 {
		want = max
	}
	if g.MatchString(in) && !ok {
		t.Fatalf("VERIF-REPRODUCED: grammar value %%q rejected", in)
	}
	if ok && big.NewInt(int64(d)).Cmp(want) != 0 {
		t.Fatalf("VERIF-REPRODUCED: %%q read as %%d ns, exact saturating value is %%s ns", in, int64(d), want)
	}
}
`, ob.Name, in)
		tf := base + "_replay_test.go.txt"
		os.WriteFile(tf, []byte(test), 0o644)
		out, rep := runOverlayTest(repo, tf)
		return out, rep, tf
	}
}
