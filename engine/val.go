package main

import (
	"fmt"
	"go/types"
	"math/big"
	"strings"

	"golang.org/x/tools/go/ssa"
)

// Val is a symbolic value. Scalars (bool, ints, strings, and every reference-like
// Go value: pointers, chans, maps, funcs, interfaces, slices) carry one SMT term T.
// Struct values and tuples are composites held on the executor side.
type Val struct {
	T   string     // SMT term (scalar kinds)
	Typ types.Type // static Go type (may be nil for ghost terms)
	S   string     // SMT sort: "Int" "Bool" "String" or "" for composites

	Elems []Val // struct value fields / tuple components

	// interior / typed pointers: pointer values always have T = object ref.
	// If Arr != "" the pointer denotes the cell Arr[T] (field or cell pointer).
	// If Arr == "" and the pointee is a struct, Root/Prefix name the struct object whose
	// fields live in arrays H.<Root>.<Prefix><field>.
	Arr    string
	Root   string
	Prefix string

	// statically known function value
	Fn    *ssa.Function
	Binds []Val
	Recv  *Val // bound method receiver

	// statically known dynamic payload of an interface value
	Dyn *Val

	// Origin: heap array the value was loaded from (channel classes, function-valued fields)
	Origin    string
	OriginRef string

	// statically known integer bounds (nil = only the type's range is known)
	Lo, Hi *big.Int
}

func (v Val) isComposite() bool { return v.S == "" && v.Elems != nil }

func sortOf(t types.Type) string {
	if t == nil {
		return "Int"
	}
	t = types.Unalias(t)
	switch u := t.Underlying().(type) {
	case *types.Basic:
		switch {
		case u.Info()&types.IsBoolean != 0:
			return "Bool"
		case u.Info()&types.IsString != 0:
			return "String"
		case u.Info()&types.IsInteger != 0:
			return "Int"
		case u.Kind() == types.UnsafePointer:
			return "Int"
		case u.Kind() == types.UntypedNil:
			return "Int"
		case u.Info()&types.IsFloat != 0:
			return "Real"
		}
		return "Int"
	case *types.Struct:
		return ""
	case *types.Tuple:
		return ""
	case *types.Array:
		return "" // unsupported as value except through pointers
	}
	return "Int"
}

func zeroTerm(sort string) string {
	switch sort {
	case "Bool":
		return "false"
	case "String":
		return "\"\""
	case "Real":
		return "0.0"
	}
	return "0"
}

// smtSym makes a legal simple SMT symbol out of an arbitrary name.
func smtSym(s string) string {
	var b strings.Builder
	for _, r := range s {
		switch {
		case r >= 'a' && r <= 'z', r >= 'A' && r <= 'Z', r >= '0' && r <= '9', r == '_', r == '.':
			b.WriteRune(r)
		case r == '*':
			b.WriteString("P")
		case r == '$':
			b.WriteString("_S")
		case r == '[':
			b.WriteString("_L")
		case r == ']':
			b.WriteString("_R")
		default:
			b.WriteString("_")
		}
	}
	out := b.String()
	if out == "" || (out[0] >= '0' && out[0] <= '9') {
		out = "x" + out
	}
	return out
}

func smtString(s string) string {
	// SMT-LIB 2.6 string literal: " doubled, non-printable via \u{..}
	var b strings.Builder
	b.WriteByte('"')
	for i := 0; i < len(s); i++ {
		c := s[i]
		switch {
		case c == '"':
			b.WriteString("\"\"")
		case c == '\\':
			b.WriteString("\\u{5c}")
		case c >= 32 && c < 127:
			b.WriteByte(c)
		default:
			fmt.Fprintf(&b, "\\u{%x}", c)
		}
	}
	b.WriteByte('"')
	return b.String()
}

func smtInt(n int64) string {
	if n < 0 {
		return fmt.Sprintf("(- %d)", -n)
	}
	return fmt.Sprintf("%d", n)
}

func smtAnd(xs ...string) string {
	var ys []string
	for _, x := range xs {
		if x == "true" || x == "" {
			continue
		}
		if x == "false" {
			return "false"
		}
		ys = append(ys, x)
	}
	switch len(ys) {
	case 0:
		return "true"
	case 1:
		return ys[0]
	}
	return "(and " + strings.Join(ys, " ") + ")"
}

func smtOr(xs ...string) string {
	var ys []string
	for _, x := range xs {
		if x == "false" || x == "" {
			continue
		}
		if x == "true" {
			return "true"
		}
		ys = append(ys, x)
	}
	switch len(ys) {
	case 0:
		return "false"
	case 1:
		return ys[0]
	}
	return "(or " + strings.Join(ys, " ") + ")"
}

func smtNot(x string) string {
	switch x {
	case "true":
		return "false"
	case "false":
		return "true"
	}
	if strings.HasPrefix(x, "(not ") && strings.HasSuffix(x, ")") && balanced(x[5:len(x)-1]) {
		return x[5 : len(x)-1]
	}
	return "(not " + x + ")"
}

func balanced(s string) bool {
	d := 0
	instr := false
	for i := 0; i < len(s); i++ {
		c := s[i]
		if c == '"' {
			instr = !instr
		}
		if instr {
			continue
		}
		if c == '(' {
			d++
		} else if c == ')' {
			d--
			if d < 0 {
				return false
			}
		} else if c == ' ' && d == 0 {
			return false
		}
	}
	return d == 0
}

func smtImp(a, b string) string {
	if a == "true" {
		return b
	}
	if a == "false" || b == "true" {
		return "true"
	}
	return "(=> " + a + " " + b + ")"
}

func smtEq(a, b string) string {
	if a == b {
		return "true"
	}
	return "(= " + a + " " + b + ")"
}

func smtIte(c, a, b string) string {
	if c == "true" {
		return a
	}
	if c == "false" {
		return b
	}
	if a == b {
		return a
	}
	return "(ite " + c + " " + a + " " + b + ")"
}

// integer type info
func intBits(t types.Type) (bits int, signed bool, ok bool) {
	b, isB := types.Unalias(t).Underlying().(*types.Basic)
	if !isB || b.Info()&types.IsInteger == 0 {
		return 0, false, false
	}
	switch b.Kind() {
	case types.Int8:
		return 8, true, true
	case types.Int16:
		return 16, true, true
	case types.Int32:
		return 32, true, true
	case types.Int64, types.Int, types.UntypedInt, types.UntypedRune:
		return 64, true, true
	case types.Uint8:
		return 8, false, true
	case types.Uint16:
		return 16, false, true
	case types.Uint32:
		return 32, false, true
	case types.Uint64, types.Uint, types.Uintptr:
		return 64, false, true
	}
	return 64, true, true
}

func wrapTerm(t types.Type, term string) string {
	bits, signed, ok := intBits(t)
	if !ok {
		return term
	}
	if signed {
		return fmt.Sprintf("(wrapS%d %s)", bits, term)
	}
	return fmt.Sprintf("(wrapU%d %s)", bits, term)
}

func rangeFact(t types.Type, term string) string {
	bits, signed, ok := intBits(t)
	if !ok {
		return "true"
	}
	if signed {
		return fmt.Sprintf("(inS%d %s)", bits, term)
	}
	return fmt.Sprintf("(inU%d %s)", bits, term)
}

func derefType(t types.Type) types.Type {
	if p, ok := types.Unalias(t).Underlying().(*types.Pointer); ok {
		return p.Elem()
	}
	return nil
}

func structOf(t types.Type) *types.Struct {
	if t == nil {
		return nil
	}
	s, _ := types.Unalias(t).Underlying().(*types.Struct)
	return s
}

// rootName for a struct type: the named type key, or a structural name for anonymous structs.
func rootName(t types.Type) string {
	t = types.Unalias(t)
	if n, ok := t.(*types.Named); ok {
		return typeKey(n)
	}
	return "anon"
}

func typeRange(t types.Type) (*big.Int, *big.Int, bool) {
	bits, signed, ok := intBits(t)
	if !ok {
		return nil, nil, false
	}
	one := big.NewInt(1)
	if signed {
		hi := new(big.Int).Lsh(one, uint(bits-1))
		lo := new(big.Int).Neg(hi)
		return lo, hi.Sub(hi, one), true
	}
	hi := new(big.Int).Lsh(one, uint(bits))
	return big.NewInt(0), hi.Sub(hi, one), true
}

func (v Val) bounds() (*big.Int, *big.Int, bool) {
	if v.Lo != nil && v.Hi != nil {
		return v.Lo, v.Hi, true
	}
	return typeRange(v.Typ)
}

func fits(lo, hi *big.Int, t types.Type) bool {
	tl, th, ok := typeRange(t)
	if !ok {
		return false
	}
	return lo.Cmp(tl) >= 0 && hi.Cmp(th) <= 0
}

var lenHi = new(big.Int).Sub(new(big.Int).Lsh(big.NewInt(1), 62), big.NewInt(1))
