package main

import (
	"fmt"
	"go/token"
	"go/types"
	"math/big"

	"golang.org/x/tools/go/ssa"
)

func (ex *Exec) binop(st *State, fr *Frame, x *ssa.BinOp) Val {
	a := ex.val(st, fr, x.X)
	b := ex.val(st, fr, x.Y)
	t := x.Type()
	so := sortOf(x.X.Type())
	mk := func(term string) Val { return ex.mkVal(t, term) }
	switch x.Op {
	case token.EQL, token.NEQ:
		var eq string
		if a.isComposite() || b.isComposite() {
			ex.unsupported("struct comparison")
			return ex.symVal(st, t, "cmp")
		}
		eq = smtEq(a.T, b.T)
		if x.Op == token.NEQ {
			return mk(smtNot(eq))
		}
		return mk(eq)
	}
	switch so {
	case "Int":
		switch x.Op {
		case token.ADD, token.SUB, token.MUL:
			op := map[token.Token]string{token.ADD: "+", token.SUB: "-", token.MUL: "*"}[x.Op]
			term := "(" + op + " " + a.T + " " + b.T + ")"
			al, ah, ok1 := a.bounds()
			bl, bh, ok2 := b.bounds()
			if ok1 && ok2 {
				var lo, hi *big.Int
				switch x.Op {
				case token.ADD:
					lo, hi = new(big.Int).Add(al, bl), new(big.Int).Add(ah, bh)
				case token.SUB:
					lo, hi = new(big.Int).Sub(al, bh), new(big.Int).Sub(ah, bl)
				case token.MUL:
					cs := []*big.Int{new(big.Int).Mul(al, bl), new(big.Int).Mul(al, bh), new(big.Int).Mul(ah, bl), new(big.Int).Mul(ah, bh)}
					lo, hi = cs[0], cs[0]
					for _, c := range cs[1:] {
						if c.Cmp(lo) < 0 {
							lo = c
						}
						if c.Cmp(hi) > 0 {
							hi = c
						}
					}
				}
				if fits(lo, hi, t) {
					v := mk(term)
					v.Lo, v.Hi = lo, hi
					return v
				}
			}
			return mk(wrapTerm(t, term))
		case token.QUO:
			ex.safety(st, fr, x, "divzero", "quo", "(distinct "+b.T+" 0)")
			if bl, bh, ok := b.bounds(); ok && b.Lo != nil && (bl.Sign() > 0 || bh.Cmp(big.NewInt(-1)) < 0) {
				// |quotient| <= |dividend|: no overflow unless the divisor can be -1
				qv := mk("(tdiv " + a.T + " " + b.T + ")")
				if al, ah, ok2 := a.bounds(); ok2 && bl.Sign() > 0 {
					lo, hi := new(big.Int).Set(al), new(big.Int).Set(ah)
					if lo.Sign() > 0 {
						lo = big.NewInt(0)
					}
					if hi.Sign() < 0 {
						hi = big.NewInt(0)
					}
					qv.Lo, qv.Hi = lo, hi
				}
				return qv
			}
			return mk(wrapTerm(t, "(tdiv "+a.T+" "+b.T+")"))
		case token.REM:
			ex.safety(st, fr, x, "divzero", "rem", "(distinct "+b.T+" 0)")
			return mk("(trem " + a.T + " " + b.T + ")")
		case token.LSS:
			return mk("(< " + a.T + " " + b.T + ")")
		case token.LEQ:
			return mk("(<= " + a.T + " " + b.T + ")")
		case token.GTR:
			return mk("(> " + a.T + " " + b.T + ")")
		case token.GEQ:
			return mk("(>= " + a.T + " " + b.T + ")")
		}
	case "String":
		switch x.Op {
		case token.ADD:
			return mk("(str.++ " + a.T + " " + b.T + ")")
		case token.LSS:
			return mk("(str.< " + a.T + " " + b.T + ")")
		case token.LEQ:
			return mk("(str.<= " + a.T + " " + b.T + ")")
		case token.GTR:
			return mk("(str.< " + b.T + " " + a.T + ")")
		case token.GEQ:
			return mk("(str.<= " + b.T + " " + a.T + ")")
		}
	case "Bool":
		switch x.Op {
		case token.AND:
			return mk(smtAnd(a.T, b.T))
		case token.OR:
			return mk(smtOr(a.T, b.T))
		}
	}
	ex.unsupported("binop %s on %v", x.Op, x.X.Type())
	return ex.symVal(st, t, "binop")
}

func (ex *Exec) unop(st *State, fr *Frame, x *ssa.UnOp) Val {
	a := ex.val(st, fr, x.X)
	switch x.Op {
	case token.NOT:
		return ex.mkVal(x.Type(), smtNot(a.T))
	case token.SUB:
		return ex.mkVal(x.Type(), wrapTerm(x.Type(), "(- "+a.T+")"))
	case token.MUL:
		ex.safety(st, fr, x, "nil", "deref", "(distinct "+a.T+" 0)")
		st.assume("(distinct " + a.T + " 0)")
		ex.discipline(st, fr, x, a, false)
		if a.Arr == "" && a.Root == "" {
			a2 := ex.mkVal(x.X.Type(), a.T)
			a = a2
		}
		v := ex.load(st, a)
		if kv, ok := ex.known[v.T]; ok && v.Fn == nil {
			v.Fn, v.Binds, v.Dyn = kv.Fn, kv.Binds, kv.Dyn
		}
		return v
	}
	ex.unsupported("unop %s", x.Op)
	return ex.symVal(st, x.Type(), "unop")
}

func (ex *Exec) convert(st *State, fr *Frame, x *ssa.Convert) Val {
	a := ex.val(st, fr, x.X)
	from, to := x.X.Type(), x.Type()
	sf, stt := sortOf(from), sortOf(to)
	_, _, fi := intBits(from)
	_, _, ti := intBits(to)
	switch {
	case fi && ti:
		if lo, hi, ok := a.bounds(); ok && fits(lo, hi, to) {
			v := ex.mkVal(to, a.T)
			v.Lo, v.Hi = lo, hi
			return v
		}
		return ex.mkVal(to, wrapTerm(to, a.T))
	case sf == "String" && stt == "Int": // string -> []byte / []rune
		return ex.mkVal(to, "(str2bytes "+a.T+")")
	case sf == "Int" && stt == "String":
		if fi {
			ex.unsupported("convert int->string")
			return ex.symVal(st, to, "conv")
		}
		return ex.mkVal(to, "(bytes2str "+a.T+")")
	case sf == "Int" && stt == "Int":
		v := a
		v.Typ = to
		return v
	}
	if sf == "Real" || stt == "Real" {
		// floating point is not modelled: the converted value is unconstrained (sound, imprecise)
		ex.notes["FLOAT-CONVERSION-UNCONSTRAINED "+ex.curKey] = true
		return ex.symVal(st, to, "fconv")
	}
	ex.unsupported("convert %v -> %v", from, to)
	return ex.symVal(st, to, "conv")
}

func (ex *Exec) makeInterface(st *State, a Val, t types.Type) Val {
	dyn := a
	var term string
	tid := ex.tid(a.Typ)
	switch {
	case a.isComposite():
		term = st.fresh("iface", "Int")
		st.assume("(distinct " + term + " 0)")
		st.assume(fmt.Sprintf("(= (ifaceType %s) %d)", term, tid))
	case a.S == "String":
		term = fmt.Sprintf("(iface_s %d %s)", tid, a.T)
	case a.S == "Bool":
		term = fmt.Sprintf("(iface_i %d (ite %s 1 0))", tid, a.T)
	default:
		term = fmt.Sprintf("(iface_i %d %s)", tid, a.T)
	}
	term = st.bind("iface", "Int", term)
	v := Val{T: term, S: "Int", Typ: t, Dyn: &dyn}
	if ex.known == nil {
		ex.known = map[string]Val{}
	}
	ex.known[term] = v
	return v
}

func (ex *Exec) typeAssert(st *State, fr *Frame, x *ssa.TypeAssert) Val {
	a := ex.val(st, fr, x.X)
	if kv, ok := ex.known[a.T]; ok && a.Dyn == nil {
		a.Dyn = kv.Dyn
	}
	target := x.AssertedType
	_, toIface := types.Unalias(target).Underlying().(*types.Interface)
	var okT string
	var res Val
	if a.Dyn != nil {
		if toIface {
			if types.Implements(a.Dyn.Typ, types.Unalias(target).Underlying().(*types.Interface)) {
				okT = "true"
			} else {
				okT = "false"
			}
			res = a
			res.Typ = target
		} else if types.Identical(a.Dyn.Typ, target) {
			okT = "true"
			res = *a.Dyn
		} else {
			okT = "false"
			res = ex.zeroVal(target)
		}
	} else if toIface {
		ok := st.fresh("taok", "Bool")
		st.assume("(=> " + ok + " (distinct " + a.T + " 0))")
		okT = ok
		res = a
		res.Typ = target
	} else {
		okT = fmt.Sprintf("(and (distinct %s 0) (= (ifaceType %s) %d))", a.T, a.T, ex.tid(target))
		if structOf(target) != nil {
			res = ex.symVal(st, target, "ta")
		} else if sortOf(target) == "String" {
			res = ex.mkVal(target, "(ifacePayloadS "+a.T+")")
		} else {
			res = ex.mkVal(target, "(ifacePayload "+a.T+")")
		}
	}
	if x.CommaOk {
		return Val{Typ: x.Type(), Elems: []Val{res, ex.mkVal(types.Typ[types.Bool], okT)}}
	}
	ex.safety(st, fr, x, "typeassert", types.TypeString(target, nil), okT)
	st.assume(okT)
	return res
}

// ---------- maps ----------

func (ex *Exec) mapInfo(m Val) (*types.Map, string, string) {
	if m.Typ == nil {
		return nil, "", ""
	}
	mt, ok := types.Unalias(m.Typ).Underlying().(*types.Map)
	if !ok {
		return nil, "", ""
	}
	return mt, mapKey(mt), sortOf(mt.Key())
}

func (ex *Exec) mapDom(st *State, m Val) string {
	_, mk, ks := ex.mapInfo(m)
	d := st.read("Mdom."+mk, "(Array "+ks+" Bool)", m.T)
	if isFreshRef(m.T) {
		return d
	}
	// the nil map is empty
	return "(ite (= " + m.T + " 0) ((as const (Array " + ks + " Bool)) false) " + d + ")"
}

// mapValArrays lists (arrayName, sort, fieldIndexPath) for the value type
func (ex *Exec) mapGet(st *State, m Val, key string) Val {
	mt, mk, ks := ex.mapInfo(m)
	vt := mt.Elem()
	var get func(t types.Type, suffix string) Val
	get = func(t types.Type, suffix string) Val {
		if s := structOf(t); s != nil {
			v := Val{Typ: t}
			for i := 0; i < s.NumFields(); i++ {
				v.Elems = append(v.Elems, get(s.Field(i).Type(), suffix+"."+s.Field(i).Name()))
			}
			return v
		}
		so := sortOf(t)
		if so == "" {
			so = "Int"
		}
		name := "Mval." + mk + suffix
		term := "(select " + st.read(name, "(Array "+ks+" "+so+")", m.T) + " " + key + ")"
		v := ex.mkVal(t, term)
		v.Origin = name
		ex.chanClassLoad(st, name, t, term)
		return v
	}
	return get(vt, "")
}

func (ex *Exec) mapSet(st *State, m Val, key string, v Val) {
	mt, mk, ks := ex.mapInfo(m)
	var set func(t types.Type, suffix string, v Val)
	set = func(t types.Type, suffix string, v Val) {
		if s := structOf(t); s != nil {
			for i := 0; i < s.NumFields(); i++ {
				if i < len(v.Elems) {
					set(s.Field(i).Type(), suffix+"."+s.Field(i).Name(), v.Elems[i])
				}
			}
			return
		}
		so := sortOf(t)
		if so == "" {
			so = "Int"
		}
		name := "Mval." + mk + suffix
		ex.chanClassStore(st, name, t, v.T)
		old := st.read(name, "(Array "+ks+" "+so+")", m.T)
		st.write(name, "(Array "+ks+" "+so+")", m.T, "(store "+old+" "+key+" "+v.T+")")
		if v.Fn != nil {
			ex.known[v.T] = v
		}
	}
	set(mt.Elem(), "", v)
}

func (ex *Exec) mapUpdate(st *State, m Val, k, v Val) {
	_, mk, ks := ex.mapInfo(m)
	st.assume("(distinct " + m.T + " 0)")
	dom := ex.mapDom(st, m)
	ln := st.read("Mlen."+mk, "Int", m.T)
	key := st.bind("key", ks, k.T)
	st.write("Mlen."+mk, "Int", m.T, "(ite (select "+dom+" "+key+") "+ln+" (+ "+ln+" 1))")
	st.write("Mdom."+mk, "(Array "+ks+" Bool)", m.T, "(store "+dom+" "+key+" true)")
	ex.mapSet(st, m, key, v)
}

func (ex *Exec) mapDelete(st *State, m Val, k Val) {
	_, mk, ks := ex.mapInfo(m)
	// delete on nil map is a no-op
	dom := ex.mapDom(st, m)
	ln := st.read("Mlen."+mk, "Int", m.T)
	key := st.bind("key", ks, k.T)
	st.write("Mlen."+mk, "Int", m.T, "(ite (select "+dom+" "+key+") (- "+ln+" 1) "+ln+")")
	st.write("Mdom."+mk, "(Array "+ks+" Bool)", m.T, "(store "+dom+" "+key+" false)")
}

func (ex *Exec) mapLen(st *State, m Val) string {
	_, mk, ks := ex.mapInfo(m)
	ln := st.bind("mlen", "Int", "(ite (= "+m.T+" 0) 0 "+st.read("Mlen."+mk, "Int", m.T)+")")
	dom := ex.mapDom(st, m)
	st.assume("(>= " + ln + " 0)")
	st.assume("(= (= " + ln + " 0) (forall ((k " + ks + ")) (not (select " + dom + " k))))")
	return ln
}

func (ex *Exec) lookup(st *State, fr *Frame, x *ssa.Lookup) Val {
	a := ex.val(st, fr, x.X)
	i := ex.val(st, fr, x.Index)
	if sortOf(x.X.Type()) == "String" {
		ex.safety(st, fr, x, "index", "string", "(and (<= 0 "+i.T+") (< "+i.T+" (str.len "+a.T+")))")
		st.assume("(and (<= 0 " + i.T + ") (< " + i.T + " (str.len " + a.T + ")))")
		return ex.mkVal(x.Type(), "(str.to_code (str.at "+a.T+" "+i.T+"))")
	}
	ex.disciplineMap(st, fr, x, a, false)
	key := i.T
	dom := ex.mapDom(st, a)
	in := "(and (distinct " + a.T + " 0) (select " + dom + " " + key + "))"
	v := ex.mapGet(st, a, key)
	// absent key (or nil map) yields the zero value
	v = ex.iteVal(st, in, v, ex.zeroVal(v.Typ))
	if x.CommaOk {
		return Val{Typ: x.Type(), Elems: []Val{v, ex.mkVal(types.Typ[types.Bool], in)}}
	}
	return v
}

func (ex *Exec) iteVal(st *State, c string, a, b Val) Val {
	if a.isComposite() {
		out := Val{Typ: a.Typ}
		for i := range a.Elems {
			out.Elems = append(out.Elems, ex.iteVal(st, c, a.Elems[i], b.Elems[i]))
		}
		return out
	}
	out := a
	out.T = st.bind("sel", a.S, smtIte(c, a.T, b.T))
	return out
}

func (ex *Exec) next(st *State, fr *Frame, x *ssa.Next) Val {
	it := ex.val(st, fr, x.Iter)
	tup := x.Type().(*types.Tuple)
	if x.IsString || len(it.Elems) == 0 {
		ex.unsupported("next over string/unknown iterator")
		return ex.symVal(st, x.Type(), "next")
	}
	m := it.Elems[0]
	mt, _, ks := ex.mapInfo(m)
	ok := st.fresh("next.ok", "Bool")
	k := st.fresh("next.k", ks)
	if _, _, isInt := intBits(mt.Key()); isInt {
		st.assume(rangeFact(mt.Key(), k))
	}
	dom := st.bind("dom", "(Array "+ks+" Bool)", ex.mapDom(st, m))
	vis := st.read("visited."+ks, "(Array "+ks+" Bool)", it.T)
	st.assume("(=> " + ok + " (and (distinct " + m.T + " 0) (select " + dom + " " + k + ") (not (select " + vis + " " + k + "))))")
	st.assume("(=> (not " + ok + ") (forall ((kk " + ks + ")) (=> (select " + dom + " kk) (select " + vis + " kk))))")
	st.write("visited."+ks, "(Array "+ks+" Bool)", it.T, "(ite "+ok+" (store "+vis+" "+k+" true) "+vis+")")
	v := ex.mapGet(st, m, k)
	kv := ex.mkVal(tup.At(1).Type(), k)
	fr.names["$key"] = kv
	return Val{Typ: x.Type(), Elems: []Val{ex.mkVal(types.Typ[types.Bool], ok), kv, v}}
}

// ---------- slices & arrays ----------

func elemSortOfSlice(t types.Type) string {
	switch u := types.Unalias(t).Underlying().(type) {
	case *types.Slice:
		s := sortOf(u.Elem())
		if s == "" {
			return "Int"
		}
		return s
	case *types.Array:
		s := sortOf(u.Elem())
		if s == "" {
			return "Int"
		}
		return s
	case *types.Pointer:
		return elemSortOfSlice(u.Elem())
	}
	return "Int"
}

func satFn(sort string) string {
	switch sort {
	case "String":
		return "sat_s"
	case "Bool":
		return "sat_b"
	}
	return "sat_i"
}

func (ex *Exec) indexAddr(st *State, fr *Frame, x *ssa.IndexAddr) Val {
	a := ex.val(st, fr, x.X)
	i := ex.val(st, fr, x.Index)
	et := derefType(x.Type())
	so := sortOf(et)
	if so == "" {
		so = "Int"
	}
	if _, isSlice := types.Unalias(x.X.Type()).Underlying().(*types.Slice); isSlice {
		// value-semantic slices: &s[i] is only supported for reading
		ex.safety(st, fr, x, "index", "slice", "(and (<= 0 "+i.T+") (< "+i.T+" (slen "+a.T+")))")
		st.assume("(and (<= 0 " + i.T + ") (< " + i.T + " (slen " + a.T + ")))")
		return Val{T: a.T, Typ: x.Type(), S: "Int", Arr: "@slice:" + so, Prefix: i.T}
	}
	// pointer to array
	ref := "(aidx " + a.T + " " + i.T + ")"
	v := ex.mkVal(x.Type(), ref)
	if structOf(et) == nil {
		v.Arr = "arr." + so
	}
	return v
}

func (ex *Exec) sliceOp(st *State, fr *Frame, x *ssa.Slice) Val {
	a := ex.val(st, fr, x.X)
	var lo, hi string
	if x.Low != nil {
		lo = ex.val(st, fr, x.Low).T
	} else {
		lo = "0"
	}
	xt := types.Unalias(x.X.Type()).Underlying()
	if sortOf(x.X.Type()) == "String" {
		if x.High != nil {
			hi = ex.val(st, fr, x.High).T
		} else {
			hi = "(str.len " + a.T + ")"
		}
		g := "(and (<= 0 " + lo + ") (<= " + lo + " " + hi + ") (<= " + hi + " (str.len " + a.T + ")))"
		ex.safety(st, fr, x, "slice", "string", g)
		st.assume(g)
		return ex.mkVal(x.Type(), "(str.substr "+a.T+" "+lo+" (- "+hi+" "+lo+"))")
	}
	so := elemSortOfSlice(x.Type())
	if p, ok := xt.(*types.Pointer); ok {
		// slicing a *[N]T: snapshot the array contents into a fresh slice value
		at := types.Unalias(p.Elem()).Underlying().(*types.Array)
		if x.High != nil {
			hi = ex.val(st, fr, x.High).T
		} else {
			hi = fmt.Sprint(at.Len())
		}
		id := st.fresh("slice", "Int")
		st.assume("(distinct " + id + " 0)")
		st.assume("(= (slen " + id + ") (- " + hi + " " + lo + "))")
		arr := "arr." + so
		var elems []Val
		for j := int64(0); j < at.Len() && j < 8; j++ {
			idx := fmt.Sprintf("(+ %s %d)", lo, j)
			if lo == "0" {
				idx = fmt.Sprint(j)
			}
			ref := fmt.Sprintf("(aidx %s %s)", a.T, idx)
			if cv, ok := ex.cellVals[arr+"@"+ref]; ok && lo == "0" {
				elems = append(elems, cv)
				st.assume(fmt.Sprintf("(= (%s %s %d) %s)", satFn(so), id, j, cv.T))
				continue
			}
			st.assume(fmt.Sprintf("(= (%s %s %d) %s)", satFn(so), id, j, st.read(arr, so, ref)))
		}
		if int64(len(elems)) == at.Len() && hi == fmt.Sprint(at.Len()) {
			ex.sliceVals[id] = elems
		}
		if at.Len() > 8 {
			ex.unsupported("array literal longer than 8")
		}
		return ex.mkVal(x.Type(), id)
	}
	// slice of slice (value semantics)
	if x.High != nil {
		hi = ex.val(st, fr, x.High).T
	} else {
		hi = "(slen " + a.T + ")"
	}
	g := "(and (<= 0 " + lo + ") (<= " + lo + " " + hi + ") (<= " + hi + " (scap " + a.T + ")))"
	ex.safety(st, fr, x, "slice", "slice", g)
	st.assume(g)
	id := st.fresh("slice", "Int")
	// s[lo:hi] of a nil slice is nil; of a non-nil slice non-nil
	st.assume("(= (= " + id + " 0) (= " + a.T + " 0))")
	st.assume("(= (slen " + id + ") (- " + hi + " " + lo + "))")
	st.assume("(forall ((j Int)) (! (=> (and (<= 0 j) (< j (- " + hi + " " + lo + "))) (= (" + satFn(so) + " " + id + " j) (" + satFn(so) + " " + a.T + " (+ j " + lo + ")))) :pattern ((" + satFn(so) + " " + id + " j))))")
	return ex.mkVal(x.Type(), id)
}

// appendVals: append(s, elems...) with value semantics
func (ex *Exec) appendOne(st *State, s Val, elem string, so string, t types.Type) Val {
	id := st.fresh("app", "Int")
	st.assume("(distinct " + id + " 0)")
	st.assume("(= (slen " + id + ") (+ (slen " + s.T + ") 1))")
	st.assume("(= (" + satFn(so) + " " + id + " (slen " + s.T + ")) " + elem + ")")
	st.assume("(forall ((j Int)) (! (=> (and (<= 0 j) (< j (slen " + s.T + "))) (= (" + satFn(so) + " " + id + " j) (" + satFn(so) + " " + s.T + " j))) :pattern ((" + satFn(so) + " " + id + " j))))")
	return ex.mkVal(t, id)
}

func (ex *Exec) appendSlice(st *State, s, more Val, so string, t types.Type) Val {
	id := st.fresh("app", "Int")
	st.assume("(= (slen " + id + ") (+ (slen " + s.T + ") (slen " + more.T + ")))")
	st.assume("(=> (> (slen " + id + ") 0) (distinct " + id + " 0))")
	st.assume("(=> (distinct " + s.T + " 0) (distinct " + id + " 0))")
	st.assume("(=> (and (= " + s.T + " 0) (= (slen " + more.T + ") 0)) (= " + id + " 0))")
	f := satFn(so)
	st.assume("(forall ((j Int)) (! (=> (and (<= 0 j) (< j (slen " + id + "))) (= (" + f + " " + id + " j) (ite (< j (slen " + s.T + ")) (" + f + " " + s.T + " j) (" + f + " " + more.T + " (- j (slen " + s.T + ")))))) :pattern ((" + f + " " + id + " j))))")
	return ex.mkVal(t, id)
}
