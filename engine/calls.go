package main

import (
	"fmt"
	"go/types"
	"math/big"
	"sort"
	"strings"

	"golang.org/x/tools/go/ssa"
)

type CallK func(st *State, fr *Frame, ret Val)

func (ex *Exec) doCall(st *State, fr *Frame, instr ssa.Instruction, c *ssa.CallCommon, k CallK) {
	fnv := ex.val(st, fr, c.Value)
	var args []Val
	for _, a := range c.Args {
		args = append(args, ex.val(st, fr, a))
	}
	ex.applyCall(st, fr, instr, c, fnv, args, k)
}

func resultType(c *ssa.CallCommon) types.Type {
	sig := c.Signature()
	switch sig.Results().Len() {
	case 0:
		return types.NewTuple()
	case 1:
		return sig.Results().At(0).Type()
	}
	return sig.Results()
}

// calleeName: display name used for counters, atcall matching and externals.
func calleeName(c *ssa.CallCommon, fnv Val) string {
	if b, ok := c.Value.(*ssa.Builtin); ok {
		return "builtin " + b.Name()
	}
	if c.IsInvoke() {
		return "(" + typeKey(c.Value.Type()) + ")." + c.Method.Name()
	}
	if fn := c.StaticCallee(); fn != nil {
		return fn.String()
	}
	if fnv.Fn != nil {
		return fnv.Fn.String()
	}
	if isCancelFuncType(c.Value.Type()) {
		return "cancelfn"
	}
	if fnv.Origin != "" {
		return "fnfield:" + fnv.Origin
	}
	return "fnvalue:" + typeKey(c.Value.Type())
}

func (ex *Exec) applyCall(st *State, fr *Frame, instr ssa.Instruction, c *ssa.CallCommon, fnv Val, args []Val, k0 CallK) {
	resT := resultType(c)
	// remember the heap right after this call returns (for aftercall(...) in specs)
	k := func(st2 *State, fr2 *Frame, ret Val) {
		if fr2.callSnaps == nil {
			fr2.callSnaps = map[string]map[string]string{}
		}
		fr2.callSnaps[calleeName(c, fnv)] = st2.snapshot()
		if fr2.callRets == nil {
			fr2.callRets = map[string]Val{}
		}
		fr2.callRets[calleeName(c, fnv)] = ret
		k0(st2, fr2, ret)
	}
	// builtins
	if b, ok := c.Value.(*ssa.Builtin); ok {
		ex.atCall(st, fr, instr, "builtin "+b.Name(), args)
		k(st, fr, ex.builtin(st, fr, instr, b, args, resT))
		return
	}
	name := calleeName(c, fnv)
	allArgs := args
	var target *ssa.Function
	var binds []Val
	if c.IsInvoke() {
		recv := fnv
		if kv, ok := ex.known[recv.T]; ok && recv.Dyn == nil {
			recv.Dyn = kv.Dyn
		}
		allArgs = append([]Val{recv}, args...)
		if recv.Dyn != nil {
			if m := ex.prog.Prog.LookupMethod(recv.Dyn.Typ, c.Method.Pkg(), c.Method.Name()); m != nil {
				target = m
				allArgs = append([]Val{*recv.Dyn}, args...)
				name = m.String()
			}
		}
		if target == nil {
			ex.safety(st, fr, instr, "nil", "invoke."+c.Method.Name(), "(distinct "+recv.T+" 0)")
			st.assume("(distinct " + recv.T + " 0)")
		}
	} else if fn := c.StaticCallee(); fn != nil {
		target = fn
		if mc, ok := c.Value.(*ssa.MakeClosure); ok {
			_ = mc
			binds = fnv.Binds
		}
	} else if fnv.Fn != nil {
		target = fnv.Fn
		binds = fnv.Binds
	} else if kv, ok := ex.known[fnv.T]; ok && kv.Fn != nil {
		target = kv.Fn
		binds = kv.Binds
		name = target.String()
	}
	if target == nil && !c.IsInvoke() {
		ex.safety(st, fr, instr, "nil", "callfn", "(distinct "+fnv.T+" 0)")
	}

	ex.atCall(st, fr, instr, name, allArgs)

	if target != nil {
		key := ex.prog.Keys[target]
		if key != "" {
			if sp := ex.specs.Funcs[key]; sp != nil && !sp.Inline && !(fr.top && false) {
				ret := ex.contractCall(st, fr, instr, target, key, sp, allArgs, binds, resT)
				k(st, fr, ret)
				return
			}
		}
		if h, ok := externals[target.String()]; ok {
			ex.use("external:" + target.String())
			st.bump(name)
			ret := h(&ExtCtx{ex: ex, st: st, fr: fr, instr: instr, name: name, args: allArgs, resT: resT})
			k(st, fr, ret)
			return
		}
		if ret, ok := ex.getterSummary(st, target, allArgs, resT); ok {
			k(st, fr, ret)
			return
		}
		if (inScope(target) || isGenProto(target) || inlineOK[target.String()] || (target.Parent() != nil && inScope(target.Parent()))) && len(target.Blocks) > 0 {
			if fr.depth >= 8 {
				ex.unsupported("inline depth exceeded at %s", target)
			} else if !ex.onStack(fr, target) {
				ex.use("inlined:" + name)
				cfr := fr
				ex.callBodyInline(st, target, allArgs, binds, fr.depth+1, fr, func(st2 *State, _ *Frame, ret Val) {
					fr2 := cfr.clone()
					k(st2, fr2, ret)
				})
				return
			} else {
				ex.unsupported("recursive call to %s havoced", target)
			}
		}
	}
	// externals by name (interface methods, function-valued fields, unknown statics)
	if h, ok := externals[name]; ok {
		ex.use("external:" + name)
		st.bump(name)
		ret := h(&ExtCtx{ex: ex, st: st, fr: fr, instr: instr, name: name, args: allArgs, resT: resT})
		k(st, fr, ret)
		return
	}
	// zerolog chains: any method on *zerolog.Event / zerolog.Logger is effect free
	if strings.Contains(name, "rs/zerolog") {
		ret := ex.zerolog(st, fr, instr, name, allArgs, resT)
		k(st, fr, ret)
		return
	}
	if !c.IsInvoke() && isCancelFuncType(c.Value.Type()) {
		ex.use("external:context.CancelFunc")
		st.bump(name)
		ex.cancelCall(st, fnv)
		k(st, fr, Val{Typ: resT})
		return
	}
	if strings.HasPrefix(name, "sort.") || strings.HasPrefix(name, "slices.Sort") || strings.HasPrefix(name, "slices.Reverse") {
		ex.unsupported("call to %s mutates a slice in place (slices are modelled with value semantics)", name)
	}
	ex.use("havoc-result:" + name)
	st.bump(name)
	// out-parameters: an unknown callee may write through a pointer to one of this function's own
	// variables (errors.As(err, &target), json.Unmarshal(b, &v), ...): those cells are havoced
	// (F1 only says that dependencies do not write goat's *shared* objects)
	var outs []Val
	for _, a := range allArgs {
		outs = append(outs, a)
		if a.Dyn != nil {
			outs = append(outs, *a.Dyn)
		} else if kv, ok := ex.known[a.T]; ok && kv.Dyn != nil {
			outs = append(outs, *kv.Dyn)
		}
	}
	for _, a := range outs {
		if strings.HasPrefix(a.Arr, "cell.") && isFreshRef(a.T) {
			so := "Int"
			if el := derefType(a.Typ); el != nil {
				if s2 := sortOf(el); s2 != "" {
					so = s2
				}
			}
			st.write(a.Arr, so, a.T, st.fresh("out."+shortName(name), so))
			delete(st.cells, a.Arr+"@"+a.T)
			ex.use("out-parameter havoced: " + name)
		}
	}
	k(st, fr, ex.symVal(st, resT, "ret."+shortName(name)))
}

var inlineOK = map[string]bool{}

func shortName(n string) string {
	if i := strings.LastIndex(n, "/"); i >= 0 {
		n = n[i+1:]
	}
	return smtSym(n)
}

func (ex *Exec) onStack(fr *Frame, fn *ssa.Function) bool {
	for f := fr; f != nil; f = f.parent {
		if f.fn == fn {
			return true
		}
	}
	return false
}

func (ex *Exec) callBodyInline(st *State, fn *ssa.Function, args []Val, binds []Val, depth int, parent *Frame, k Cont) {
	fr := ex.newFrame(fn, depth)
	fr.parent = parent
	fr.params = args
	fr.binds = binds
	for i, p := range fn.Params {
		if i < len(args) {
			fr.vals[p] = args[i]
			fr.names[p.Name()] = args[i]
		}
	}
	for i, fv := range fn.FreeVars {
		if i < len(binds) {
			fr.vals[fv] = binds[i]
			fr.names["&"+fv.Name()] = binds[i]
		}
	}
	fr.entryHeap = st.snapshot()
	fr.entryCnt = map[string]string{}
	for k2, v := range st.cnt {
		fr.entryCnt[k2] = v
	}
	st.note("inline " + fr.key)
	ex.block(st, fr, fn.Blocks[0], nil, func(st2 *State, cf *Frame, ret Val) {
		st2.note("return " + fr.key)
		k(st2, cf, ret)
	})
}

// getterSummary: generated protobuf getters  func (x *T) GetF() F { if x != nil { return x.F }; return zero }
func (ex *Exec) getterSummary(st *State, fn *ssa.Function, args []Val, resT types.Type) (Val, bool) {
	if !(isGenProto(fn) || isSpbStatus(fn)) || !strings.HasPrefix(fn.Name(), "Get") || len(args) != 1 || len(fn.Blocks) != 3 {
		return Val{}, false
	}
	recv := args[0]
	s := structOf(derefType(recv.Typ))
	if s == nil {
		return Val{}, false
	}
	fname := fn.Name()[3:]
	for i := 0; i < s.NumFields(); i++ {
		if s.Field(i).Name() == fname || s.Field(i).Name() == fname+"_" {
			// shape check: block 0 ends in If on a nil comparison
			if _, ok := fn.Blocks[0].Instrs[len(fn.Blocks[0].Instrs)-1].(*ssa.If); !ok {
				return Val{}, false
			}
			ex.use("getter-summary:" + fn.String())
			p := recv
			if p.Root == "" {
				p = ex.mkVal(recv.Typ, recv.T)
			}
			fv := ex.load(st, ex.fieldPtr(p, i))
			if fv.isComposite() {
				return Val{}, false
			}
			out := fv
			out.T = st.bind("get"+fname, fv.S, smtIte("(distinct "+recv.T+" 0)", fv.T, zeroTerm(fv.S)))
			return out, true
		}
	}
	return Val{}, false
}

func (ex *Exec) zerolog(st *State, fr *Frame, instr ssa.Instruction, name string, args []Val, resT types.Type) Val {
	// log.Panic()/logger.Panic() start a chain whose terminal Msg/Msgf/Send panics.
	base := name[strings.LastIndex(name, ".")+1:]
	if base == "Panic" && (strings.Contains(name, "zerolog/log.Panic") || strings.Contains(name, "zerolog.Logger).Panic")) {
		ex.safety(st, fr, instr, "panic", "log.Panic", "false")
		// the path ends in a panic once Msg is called: treat as path end by assuming false
		st.assume("false")
		st.note("log.Panic")
	}
	if tup, ok := resT.(*types.Tuple); ok && tup.Len() == 0 {
		return Val{Typ: resT}
	}
	// events are opaque non-nil handles
	v := ex.symVal(st, resT, "zl")
	if v.S == "Int" {
		st.assume("(distinct " + v.T + " 0)")
	}
	return v
}

// ---------- atcall clauses ----------

func (ex *Exec) atCall(st *State, fr *Frame, instr ssa.Instruction, name string, args []Val) {
	alt := ex.shortCallee(instr)
	// the frame's own clauses, then (for a closure executed in place: deferred / called closures)
	// those of the lexically enclosing functions - "at a call to f made by this function" includes
	// the calls its in-place closures make, whichever of the two forms the source uses
	type owner struct {
		key string
		sp  *FuncSpec
		fr  *Frame // frame the clause's names are resolved in
	}
	var owners []owner
	if fr.spec != nil {
		owners = append(owners, owner{fr.key, fr.spec, fr})
	}
	if fr.fn != nil && !fr.top && (fr.spec == nil || fr.spec.Inline) {
		for p := fr.fn.Parent(); p != nil; p = p.Parent() {
			pk := ex.prog.Keys[p]
			if psp := ex.specs.Funcs[pk]; psp != nil {
				owners = append(owners, owner{pk, psp, fr})
			}
		}
	}
	// ... and those of the functions that are executing this one in place (a helper without a contract
	// is part of its caller's body: moving a call into such a helper does not take it out of the
	// caller's "at a call to f" clauses). Clauses that name a site ordinal stay with their own function.
	nLex := len(owners)
	if fr.fn != nil && !fr.top && (fr.spec == nil || fr.spec.Inline) {
		seen := map[string]bool{}
		for _, o := range owners {
			seen[o.key] = true
		}
		for f := fr.parent; f != nil; f = f.parent {
			if f.spec != nil && !seen[f.key] {
				owners = append(owners, owner{f.key, f.spec, f})
				seen[f.key] = true
			}
			if f.top {
				break
			}
		}
	}
	for oi, o := range owners {
		for _, c := range o.sp.AtCall {
			if !strings.Contains(name, c.Callee) && !(alt != "" && strings.Contains(alt, c.Callee)) {
				continue
			}
			if c.Ord >= 0 && oi >= nLex {
				continue
			}
			if c.Ord >= 0 && ex.siteOrdinal(fr.fn, instr, c.Callee) != c.Ord {
				continue
			}
			extra := map[string]Val{}
			for i, a := range args {
				extra[fmt.Sprintf("arg%d", i)] = a
			}
			g := ex.evalClause(st, o.fr, c, extra)
			ex.covers[o.key+"/atcall/"+c.name()+"/"+c.Callee] = true
			ob := ex.oblige(st, "atcall", fmt.Sprintf("%s/%s", o.key, c.name()), c.Labels, g, c, ex.posOf(instr))
			ex.attachProbes(st, fr, ob)
		}
	}
}

// shortCallee: the contract-file key of a statically known callee in the module (or "")
func (ex *Exec) shortCallee(instr ssa.Instruction) string {
	ci, ok := instr.(ssa.CallInstruction)
	if !ok {
		return ""
	}
	if fn := ci.Common().StaticCallee(); fn != nil {
		return ex.prog.Keys[fn]
	}
	return ""
}

// siteOrdinal: index of instr among the call sites in fn whose callee name contains substr, by source order.
func (ex *Exec) siteOrdinal(fn *ssa.Function, instr ssa.Instruction, substr string) int {
	type site struct {
		pos int
		in  ssa.Instruction
	}
	var sites []site
	n := 0
	for _, b := range fn.Blocks {
		for _, in := range b.Instrs {
			n++
			var c *ssa.CallCommon
			switch x := in.(type) {
			case *ssa.Call:
				c = x.Common()
			case *ssa.Defer:
				c = x.Common()
			case *ssa.Go:
				c = x.Common()
			case *ssa.Send:
				if strings.Contains("send", substr) {
					sites = append(sites, site{int(in.Pos())*1000 + n%1000, in})
				}
				continue
			default:
				continue
			}
			nm := calleeName(c, Val{})
			short := ""
			if sf := c.StaticCallee(); sf != nil {
				short = ex.prog.Keys[sf]
			}
			if strings.Contains(nm, substr) || (short != "" && strings.Contains(short, substr)) {
				sites = append(sites, site{int(in.Pos())*1000 + n%1000, in})
			}
		}
	}
	sort.Slice(sites, func(i, j int) bool { return sites[i].pos < sites[j].pos })
	for i, s := range sites {
		if s.in == instr {
			return i
		}
	}
	return -1
}

// ---------- contract calls ----------

func (ex *Exec) pseudoFrame(fn *ssa.Function, key string, sp *FuncSpec, args []Val, binds []Val, st *State) *Frame {
	pf := ex.newFrame(fn, 0)
	pf.spec = sp
	pf.pseudo = true
	pf.params = args
	for i, p := range fn.Params {
		if i < len(args) {
			pf.vals[p] = args[i]
			pf.names[p.Name()] = args[i]
		}
	}
	for i, fv := range fn.FreeVars {
		if i < len(binds) {
			pf.names["&"+fv.Name()] = binds[i]
		}
	}
	pf.entryHeap = st.snapshot()
	pf.entryCnt = map[string]string{}
	for k, v := range st.cnt {
		pf.entryCnt[k] = v
	}
	return pf
}

func (ex *Exec) contractCall(st *State, fr *Frame, instr ssa.Instruction, fn *ssa.Function, key string, sp *FuncSpec, args []Val, binds []Val, resT types.Type) Val {
	ex.use("contract:" + key)
	ex.callUnderLock(st, fr, instr, fn, key)
	if len(st.held) > 0 {
		// locks the callee may take are taken while ours are held
		taken := map[string]bool{}
		ex.locksTakenBy(fn, map[*ssa.Function]bool{}, taken)
		for _, h := range st.held {
			for t := range taken {
				ex.lockEdge(h.Key, t, fr.key+" -> "+key)
			}
		}
	}
	st.bump("call:" + key)
	pf := ex.pseudoFrame(fn, key, sp, args, binds, st)
	ord := 0
	if instr != nil {
		ord = ex.siteOrdinal(fr.fn, instr, fn.String())
	}
	ex.obligeObjInvs(st, fr, pf, fn, key, ord, args, instr)
	for _, c := range sp.Requires {
		g := ex.evalClause(st, pf, c, nil)
		ex.oblige(st, "requires", fmt.Sprintf("%s/call.%s#%d.%s", fr.key, key, ord, c.name()), ex.calleeLabels(c, key), g, c, ex.posOf(instr))
		st.assume(g)
	}
	for _, l := range sp.Holds {
		found := false
		for _, h := range st.held {
			if h.Key == l {
				found = true
			}
		}
		if !found {
			ex.oblige(st, "holds", fmt.Sprintf("%s/call.%s#%d.holds.%s", fr.key, key, ord, l), ex.lockLabels(l), "false", nil, ex.posOf(instr))
		}
	}
	for i, o := range sp.Owns {
		t := ex.evalSpec(st, pf, o, nil).T
		ok := isFreshRef(t) && !st.published[t]
		for _, p := range st.pinned {
			if p == t {
				ok = true
			}
		}
		goal := "true"
		if !ok {
			goal = "false"
		}
		ex.oblige(st, "owns", fmt.Sprintf("%s/call.%s#%d.owns%d", fr.key, key, ord, i), ex.firstLabels(sp), goal, nil, ex.posOf(instr))
		st.published[t] = true
		var np []string
		for _, p := range st.pinned {
			if p != t {
				np = append(np, p)
			}
		}
		st.pinned = np
	}
	// frame
	var ms *modSet
	if sp.HasMod {
		ms = &modSet{arr: map[string]bool{}, cnt: map[string]bool{}}
		for _, m := range sp.Modifies {
			if strings.HasPrefix(m, "cnt:") {
				ms.cnt[strings.TrimPrefix(m, "cnt:")] = true
			} else {
				ms.arr[m] = true
			}
		}
		// counters outside the frame-checked classes are havoced regardless of the declaration
		for _, c := range ex.expandCounters(st, ex.funcModSet(fn)) {
			if !frameCounter(c) {
				ms.cnt[c] = true
			}
		}
	} else {
		ms = ex.funcModSet(fn)
	}
	for _, a := range ms.arrays() {
		if a == "closed" {
			ex.havocClosed(st)
			continue
		}
		if a == "ctxdone" {
			ex.observeCtx(st)
			continue
		}
		st.havoc(a)
	}
	for _, c := range ex.expandCounters(st, ms) {
		old := st.counter(c)
		st.cnt[c] = st.fresh("cnt."+c, "Int")
		st.assume("(>= " + st.cnt[c] + " " + old + ")")
	}
	ret := ex.symVal(st, resT, "ret."+shortName(key))
	pf.results = ret
	for _, c := range sp.Defines {
		st.assume(ex.evalClause(st, pf, c, nil))
		ex.use("definitional provenance predicate: " + key + ": " + c.Text)
	}
	open := ex.openFindings
	for _, c := range sp.Ensures {
		if open != nil && open[key+"/"+c.name()] {
			continue // a postcondition known to be false is not assumed
		}
		if g, ok := ex.evalAtCallSite(st, pf, c); ok {
			st.assume(g)
		}
	}
	// results satisfy their object invariants (proved at the callee's returns)
	ex.resultObjInvs(st, pf, key, ret, false)
	return ret
}

func (ex *Exec) lockLabels(l string) []string {
	if ls := ex.specs.Locks[l]; ls != nil && len(ls.Inv) > 0 {
		return ls.Inv[0].Labels
	}
	return []string{"C15.discipline"}
}

// ---------- go statements ----------

func (ex *Exec) doGo(st *State, fr *Frame, x *ssa.Go) {
	c := x.Common()
	fnv := ex.val(st, fr, c.Value)
	var args []Val
	for _, a := range c.Args {
		args = append(args, ex.val(st, fr, a))
	}
	name := calleeName(c, fnv)
	st.bump("go:" + name)
	ex.atCall(st, fr, x, "go:"+name, args)
	var target *ssa.Function
	binds := fnv.Binds
	if fn := c.StaticCallee(); fn != nil {
		target = fn
	} else if fnv.Fn != nil {
		target = fnv.Fn
	}
	if target == nil {
		return
	}
	key := ex.prog.Keys[target]
	if sp := ex.specs.Funcs[key]; sp == nil && key != "" && !strings.HasPrefix(key, "goatorepo.") && !strings.HasPrefix(key, "testutil.") {
		// goroutine census: every goroutine the library starts runs a function under contract (that is
		// where its escapes, its frame and its hand-offs are stated); a goroutine started on code
		// without a contract has no argument that it ever ends
		ex.oblige(st, "go-census", fmt.Sprintf("%s#go@%s.uncontracted", fr.key, smtSym(key)),
			[]string{"C10.goroutine_census", "C11.goroutine_census", "C14.goroutine_census", "C15.goroutine_census", "C17.goroutine_census", "C18.goroutine_census", "C19.goroutine_census"}, "false", nil, ex.posOf(x))
	}
	if sp := ex.specs.Funcs[key]; sp != nil {
		allArgs := args
		pf := ex.pseudoFrame(target, key, sp, allArgs, binds, st)
		ex.obligeObjInvs(st, fr, pf, target, key, 0, allArgs, x)
		for _, cl := range sp.Requires {
			g := ex.evalClause(st, pf, cl, nil)
			ex.oblige(st, "requires", fmt.Sprintf("%s/go.%s.%s", fr.key, key, cl.name()), ex.calleeLabels(cl, key), g, cl, ex.posOf(x))
		}
	}
}

// ---------- builtins ----------

func (ex *Exec) builtin(st *State, fr *Frame, instr ssa.Instruction, b *ssa.Builtin, args []Val, resT types.Type) Val {
	switch b.Name() {
	case "len":
		a := args[0]
		switch types.Unalias(a.Typ).Underlying().(type) {
		case *types.Map:
			ex.disciplineMap(st, fr, instr, a, false)
			return ex.mkVal(resT, ex.mapLen(st, a))
		case *types.Chan:
			return ex.mkVal(resT, st.read(chlenArr(a), "Int", a.T))
		}
		lv := ex.mkVal(resT, "(slen "+a.T+")")
		if a.S == "String" {
			lv = ex.mkVal(resT, "(str.len "+a.T+")")
		}
		lv.Lo, lv.Hi = big.NewInt(0), lenHi
		return lv
	case "cap":
		a := args[0]
		if _, ok := types.Unalias(a.Typ).Underlying().(*types.Chan); ok {
			return ex.mkVal(resT, "(ch_cap "+a.T+")")
		}
		return ex.mkVal(resT, "(scap "+a.T+")")
	case "append":
		s, more := args[0], args[1]
		so := elemSortOfSlice(s.Typ)
		if more.T == "0" {
			return s
		}
		// append(s, x): the variadic slice is a one-element literal built just before the call
		if ev := ex.sliceVals[more.T]; len(ev) == 1 {
			return ex.appendOne(st, s, ev[0].T, so, resT)
		}
		return ex.appendSlice(st, s, more, so, resT)
	case "delete":
		ex.disciplineMap(st, fr, instr, args[0], true)
		ex.onDelete(st, fr, instr, args[0], args[1])
		ex.mapDelete(st, args[0], args[1])
		return Val{Typ: resT}
	case "close":
		ex.doClose(st, fr, instr, args[0])
		return Val{Typ: resT}
	case "print", "println":
		return Val{Typ: resT}
	case "copy":
		ex.unsupported("builtin copy")
		return ex.symVal(st, resT, "copy")
	case "min", "max":
		op := "<="
		if b.Name() == "max" {
			op = ">="
		}
		cur := args[0]
		for _, a := range args[1:] {
			cur = ex.mkVal(resT, smtIte("("+op+" "+cur.T+" "+a.T+")", cur.T, a.T))
		}
		return cur
	case "recover":
		return ex.mkVal(resT, "0")
	}
	ex.unsupported("builtin %s", b.Name())
	return ex.symVal(st, resT, "bi")
}

// ---------- channels ----------

// Channel classes are a refinement of the heap location a channel lives in: every non-nil channel
// stored at origin O has the class declared for O (none declared = class 0). Proved at every
// store (chanClassStore), assumed at every load (chanClassLoad).
func (ex *Exec) originClassID(origin string) int {
	if n := ex.specs.ChanClassOf[origin]; n != "" {
		if cc := ex.specs.Classes[n]; cc != nil {
			return cc.ID
		}
		ex.specError("chan %s class %s: unknown class", origin, n)
	}
	return 0
}

func isChanType(t types.Type) bool {
	if t == nil {
		return false
	}
	_, ok := types.Unalias(t).Underlying().(*types.Chan)
	return ok
}

// originNC: the storage location is declared never_closed
func (ex *Exec) originNC(origin string) bool {
	cs := ex.specs.Chans[origin]
	return cs != nil && cs.Kind == "never_closed"
}

func (ex *Exec) originClosable(origin string) bool {
	cs := ex.specs.Chans[origin]
	return cs != nil && cs.Kind == "closable"
}

func (ex *Exec) chanClassLoad(st *State, origin string, t types.Type, term string) {
	if isChanType(t) && !strings.HasPrefix(origin, "@") {
		// never-closedness is a refinement of the location too (proved at every store and close)
		if ex.originNC(origin) {
			st.assume("(=> (distinct " + term + " 0) (ch_nc " + term + "))")
		} else if ex.originClosable(origin) {
			st.assume("(=> (distinct " + term + " 0) (not (ch_nc " + term + ")))")
		}
	}
	if !isChanType(t) || len(ex.specs.ClassList) == 0 || strings.HasPrefix(origin, "@") {
		return
	}
	st.assume(fmt.Sprintf("(=> (distinct %s 0) (= (ch_class %s) %d))", term, term, ex.originClassID(origin)))
}

func (ex *Exec) chanClassStore(st *State, origin string, t types.Type, term string) {
	if isChanType(t) && term != "0" {
		// locations declared never_closed hold only never-closed channels, locations declared closable
		// only channels that may be closed; undeclared locations hold either (and nothing is assumed)
		if ex.originNC(origin) {
			ex.oblige(st, "chan-nc", fmt.Sprintf("%s#neverclosed@%s", ex.curKey, smtSym(origin)), []string{"*"}, "(or (= "+term+" 0) (ch_nc "+term+"))", nil, "")
		} else if ex.originClosable(origin) {
			ex.oblige(st, "chan-nc", fmt.Sprintf("%s#closable@%s", ex.curKey, smtSym(origin)), []string{"*"}, "(or (= "+term+" 0) (not (ch_nc "+term+")))", nil, "")
		}
	}
	if !isChanType(t) || len(ex.specs.ClassList) == 0 || term == "0" {
		return
	}
	if ex.activeClass != nil && len(ex.activeClass) == 0 {
		return
	}
	labels := []string{"*"}
	goal := fmt.Sprintf("(or (= %s 0) (= (ch_class %s) %d))", term, term, ex.originClassID(origin))
	ex.oblige(st, "chanclass", fmt.Sprintf("%s#chanclass@%s", ex.curKey, smtSym(origin)), labels, goal, nil, "")
}

// calleeLabels: an unlabelled precondition (or captures clause) of f is assumed whenever f is
// verified, so it is proved at the call sites visited in exactly those runs that verify f.
func (ex *Exec) calleeLabels(c *Clause, calleeKey string) []string {
	if len(c.Labels) > 0 {
		return c.Labels
	}
	if ex.inRun == nil || ex.inRun[calleeKey] {
		return []string{"*"}
	}
	return []string{"-"}
}

func (ex *Exec) chanSpec(ch Val) *ChanSpec {
	if ch.Origin == "" {
		return nil
	}
	return ex.specs.Chans[ch.Origin]
}

func (ex *Exec) havocClosed(st *State) {
	old := st.arr("closed", "Bool")
	st.havoc("closed")
	nw := st.arr("closed", "Bool")
	if old == nw {
		return
	}
	st.assume("(forall ((c Int)) (! (=> (select " + old + " c) (select " + nw + " c)) :pattern ((select " + nw + " c))))")
	for _, p := range st.pinned {
		st.assume("(= (select " + nw + " " + p + ") (select " + old + " " + p + "))")
	}
	// channels of a class that is closed only under a lock this path holds keep their closedness
	// (every close site proves: class K => that lock is held)
	for _, h := range st.held {
		if ls := ex.specs.Locks[h.Key]; ls != nil {
			for _, cn := range ls.Closes {
				if cc := ex.specs.Classes[cn]; cc != nil {
					st.assume(fmt.Sprintf("(forall ((c Int)) (! (=> (= (ch_class c) %d) (= (select %s c) (select %s c))) :pattern ((select %s c))))", cc.ID, nw, old, nw))
				}
			}
		}
	}
}

func (ex *Exec) notClosed(st *State, ch Val) string {
	if cs := ex.chanSpec(ch); cs != nil && cs.Kind == "never_closed" {
		ex.use("chan-census:" + ch.Origin + " never_closed")
		return "true"
	}
	// a never-closed channel (ghost attribute fixed when it is made; every close proves its operand is
	// not one) is open
	return "(or (= " + ch.T + " 0) (ch_nc " + ch.T + ") (not " + st.read("closed", "Bool", ch.T) + "))"
}

func (ex *Exec) doClose(st *State, fr *Frame, instr ssa.Instruction, ch Val) {
	// classes closed only under a lock: this close either is not of such a class or holds the lock
	for lk, ls := range ex.specs.Locks {
		for _, cn := range ls.Closes {
			cc := ex.specs.Classes[cn]
			if cc == nil {
				ex.specError("lock %s closes unknown class %s", lk, cn)
				continue
			}
			held := false
			for _, h := range st.held {
				if h.Key == lk {
					held = true
				}
			}
			if !held {
				ex.oblige(st, "close-census", fmt.Sprintf("%s#close@class.%s#%d", fr.key, cn, ex.ordinalOf(fr, instr, "close")), []string{"*"}, fmt.Sprintf("(distinct (ch_class %s) %d)", ch.T, cc.ID), nil, ex.posOf(instr))
			}
		}
	}
	ex.oblige(st, "close-census", fmt.Sprintf("%s#close@neverclosed#%d", fr.key, ex.ordinalOf(fr, instr, "close")), []string{"*"}, "(not (ch_nc "+ch.T+"))", nil, ex.posOf(instr))
	ex.safety(st, fr, instr, "close", "nil", "(distinct "+ch.T+" 0)")
	ex.safety(st, fr, instr, "close", "closed", "(not "+st.read("closed", "Bool", ch.T)+")")
	ex.closeCensus(st, fr, instr, ch)
	st.bump("close")
	st.write("closed", "Bool", ch.T, "true")
}

func (ex *Exec) doSend(st *State, fr *Frame, instr ssa.Instruction, ch Val, v Val, blocking bool) {
	name := "send"
	if ch.Origin != "" {
		name = "send:" + ch.Origin
	}
	ex.atCall(st, fr, instr, name, []Val{ch, v})
	ex.safety(st, fr, instr, "send", "closed", ex.notClosed(st, ch))
	ex.sendMsgInv(st, fr, instr, ch, v, fmt.Sprintf("#%d", ex.ordinalOf(fr, instr, "send")))
	ex.blockingUnderLock(st, fr, instr, ch, blocking)
	st.bump(name)
	st.bump("send")
	st.write(chlenArr(ch), "Int", ch.T, "(+ "+st.read(chlenArr(ch), "Int", ch.T)+" 1)")
}

func (ex *Exec) doRecv(st *State, fr *Frame, instr ssa.Instruction, ch Val, commaOk bool, resT types.Type) Val {
	var et types.Type
	if ct, ok := types.Unalias(ch.Typ).Underlying().(*types.Chan); ok {
		et = ct.Elem()
	} else {
		et = types.Typ[types.Int]
	}
	v := ex.symVal(st, et, "recv")
	ok := "true"
	cs := ex.chanSpec(ch)
	neverClosed := cs != nil && cs.Kind == "never_closed"
	if strings.HasPrefix(ch.Origin, "ctxdone:") {
		// receiving from ctx.Done() succeeds only once the context is done
		ctx := strings.TrimPrefix(ch.Origin, "ctxdone:")
		ex.observeCtx(st)
		st.assume(st.read("ctxdone", "Bool", ctx))
		fr.lastRecvOk = "false"
		if commaOk {
			return Val{Typ: resT, Elems: []Val{v, ex.mkVal(types.Typ[types.Bool], "false")}}
		}
		return v
	}
	if !neverClosed {
		okc := st.fresh("recv.ok", "Bool")
		ok = okc
		ex.havocClosedIfUnheld(st, ch)
		st.assume("(=> (not " + okc + ") " + st.read("closed", "Bool", ch.T) + ")")
		if !v.isComposite() {
			st.assume("(=> (not " + okc + ") (= " + v.T + " " + zeroTerm(v.S) + "))")
		}
	}
	for _, cc := range ex.specs.ClassList {
		g, typed := ex.tryClause(st, fr, cc.MsgInv, map[string]Val{"m": v, "ch": ch})
		if !typed {
			continue
		}
		// assumed only in runs that also prove it at every send (same property label)
		if ex.activeClass != nil && !ex.activeClass[cc.ID] {
			continue
		}
		st.assume(smtImp(smtAnd(ok, fmt.Sprintf("(= (ch_class %s) %d)", ch.T, cc.ID)), g))
	}
	st.bump("recv")
	fr.lastRecvOk = ok
	if commaOk {
		return Val{Typ: resT, Elems: []Val{v, ex.mkVal(types.Typ[types.Bool], ok)}}
	}
	return v
}

// closedness of a shared channel may change whenever its guard is not held
func (ex *Exec) havocClosedIfUnheld(st *State, ch Val) {
	ex.havocClosed(st)
}

func (ex *Exec) doSelect(st *State, fr *Frame, x *ssa.Select, k CallK) {
	tup := x.Type().(*types.Tuple)
	nrecv := 0
	for _, s := range x.States {
		if s.Dir == types.RecvOnly {
			nrecv++
		}
	}
	mkRet := func(st *State, idx int, okT string, recvSlot int, rv Val) Val {
		ret := Val{Typ: tup}
		ret.Elems = append(ret.Elems, ex.mkVal(types.Typ[types.Int], smtInt(int64(idx))))
		ret.Elems = append(ret.Elems, ex.mkVal(types.Typ[types.Bool], okT))
		for j := 0; j < nrecv; j++ {
			if j == recvSlot {
				ret.Elems = append(ret.Elems, rv)
			} else {
				ret.Elems = append(ret.Elems, ex.zeroVal(tup.At(2+j).Type()))
			}
		}
		return ret
	}
	if x.Blocking {
		has := false
		var ctxs []string
		for _, s := range x.States {
			if o := ex.val(st, fr, s.Chan).Origin; s.Dir == types.RecvOnly && strings.HasPrefix(o, "ctxdone:") {
				has = true
				ctxs = append(ctxs, strings.TrimPrefix(o, "ctxdone:"))
			}
		}
		ex.ctxAware(st, fr, x, "select", has, ctxs...)
		var rcs []string
		for _, s := range x.States {
			if s.Dir == types.RecvOnly {
				rcs = append(rcs, ex.val(st, fr, s.Chan).T)
			}
		}
		ex.escapes(st, fr, x, "select", rcs)
	}
	nStates := len(x.States)
	total := nStates
	if !x.Blocking {
		total++
	}
	slot := 0
	for i, s := range x.States {
		var cst *State
		var cfr *Frame
		if i == total-1 {
			cst, cfr = st, fr
		} else {
			cst, cfr = st.clone(), fr.clone()
		}
		ch := ex.val(cst, cfr, s.Chan)
		cst.note(fmt.Sprintf("select case %d", i))
		if s.Dir == types.SendOnly {
			v := ex.val(cst, cfr, s.Send)
			ex.doSendSel(cst, cfr, x, i, ch, v, x.Blocking && nStates == 1, x)
			k(cst, cfr, mkRet(cst, i, "false", -1, Val{}))
		} else {
			r := ex.doRecv(cst, cfr, x, ch, true, nil)
			k(cst, cfr, mkRet(cst, i, r.Elems[1].T, slot, r.Elems[0]))
			slot++
		}
	}
	if !x.Blocking {
		st.note("select default")
		k(st, fr, mkRet(st, -1, "false", -1, Val{}))
	}
}

func (ex *Exec) doSendSel(st *State, fr *Frame, instr ssa.Instruction, idx int, ch Val, v Val, sole bool, sel *ssa.Select) {
	name := "send"
	if ch.Origin != "" {
		name = "send:" + ch.Origin
	}
	ex.atCall(st, fr, instr, name, []Val{ch, v})
	ex.safety(st, fr, instr, "send", fmt.Sprintf("closed.case%d", idx), ex.notClosed(st, ch))
	ex.sendMsgInv(st, fr, instr, ch, v, fmt.Sprintf("#sel%d.%d", ex.ordinalOf(fr, instr, "select"), idx))
	ex.selectUnderLock(st, fr, sel, ch)
	st.bump(name)
	st.bump("send")
	st.write(chlenArr(ch), "Int", ch.T, "(+ "+st.read(chlenArr(ch), "Int", ch.T)+" 1)")
}

// sendMsgInv: a message sent on a channel must satisfy the invariant of the channel's class.
func (ex *Exec) sendMsgInv(st *State, fr *Frame, instr ssa.Instruction, ch Val, v Val, site string) {
	for _, cc := range ex.specs.ClassList {
		g, typed := ex.tryClause(st, fr, cc.MsgInv, map[string]Val{"m": v, "ch": ch})
		if !typed {
			continue
		}
		if ex.activeClass != nil && !ex.activeClass[cc.ID] {
			continue
		}
		goal := smtImp(fmt.Sprintf("(= (ch_class %s) %d)", ch.T, cc.ID), g)
		ex.oblige(st, "msginv", fmt.Sprintf("%s/send.msginv.%s%s", fr.key, cc.Name, site), []string{"*"}, goal, cc.MsgInv, ex.posOf(instr))
	}
}

func (ex *Exec) firstLabels(sp *FuncSpec) []string {
	for _, c := range sp.Requires {
		return c.Labels
	}
	for _, c := range sp.Ensures {
		return c.Labels
	}
	return nil
}

// chlenArr: queue-length ghost array, one per channel element type (channels of different
// element types never alias).
func chlenArr(ch Val) string {
	if ch.Typ != nil {
		if ct, ok := types.Unalias(ch.Typ).Underlying().(*types.Chan); ok {
			return "chlen." + smtSym(types.TypeString(ct.Elem(), func(p *types.Package) string { return p.Name() }))
		}
	}
	return "chlen"
}

func isSpbStatus(fn *ssa.Function) bool {
	return fn.Pkg != nil && fn.Pkg.Pkg.Path() == "google.golang.org/genproto/googleapis/rpc/status"
}

// onDelete: typestate of registry entries - "an entry leaves table F only when P(entry) holds" (declared
// with ondelete). Proved at every delete from a map loaded from field F, for a key that is present.
func (ex *Exec) onDelete(st *State, fr *Frame, instr ssa.Instruction, m Val, k Val) {
	if !strings.HasPrefix(m.Origin, "H.") {
		return
	}
	fk := strings.TrimPrefix(m.Origin, "H.")
	cls := ex.specs.OnDelete[fk]
	if len(cls) == 0 {
		return
	}
	_, _, ks := ex.mapInfo(m)
	key := st.bind("delkey", ks, k.T)
	present := "(select " + ex.mapDom(st, m) + " " + key + ")"
	entry := ex.mapGet(st, m, key)
	kv := k
	kv.T = key
	for _, c := range cls {
		g := ex.evalClause(st, fr, c, map[string]Val{"key": kv, "entry": entry})
		ex.covers["ondelete/"+fk+"/"+c.name()] = true
		ex.oblige(st, "ondelete", fmt.Sprintf("%s#ondelete@%s.%s", fr.key, fk, c.name()), c.Labels, "(=> "+present+" "+g+")", c, ex.posOf(instr))
	}
}
