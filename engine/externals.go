package main

import (
	"fmt"
	"go/types"
	"strings"

	"golang.org/x/tools/go/ssa"
)

// ExtCtx is what an assumed dependency contract sees of a call.
type ExtCtx struct {
	ex    *Exec
	st    *State
	fr    *Frame
	instr ssa.Instruction
	name  string
	args  []Val
	resT  types.Type
}

type ExtFn func(c *ExtCtx) Val

// externals: ASSUMED contracts on dependencies (never proved). Every entry used by a run is
// listed in that run's evidence. Doc strings are in externalDocs.
var externals = map[string]ExtFn{}
var externalDocs = map[string]string{}

func ext(name, doc string, f ExtFn) {
	externals[name] = f
	externalDocs[name] = doc
}

func (c *ExtCtx) tuple(vs ...Val) Val { return Val{Typ: c.resT, Elems: vs} }
func (c *ExtCtx) unit() Val           { return Val{Typ: c.resT} }
func (c *ExtCtx) resType(i int) types.Type {
	if t, ok := c.resT.(*types.Tuple); ok {
		return t.At(i).Type()
	}
	return c.resT
}
func (c *ExtCtx) fresh(i int, prefix string) Val {
	return c.ex.symVal(c.st, c.resType(i), prefix)
}
func (c *ExtCtx) mk(i int, term string) Val { return c.ex.mkVal(c.resType(i), term) }

func lockKeyOf(p Val) string {
	k := p.Root + "." + strings.TrimSuffix(p.Prefix, ".")
	return k
}

func init() {
	// ---------- strconv / strings / fmt ----------
	ext("strconv.ParseInt", "ParseInt(s,10,64): err==nil <=> s in [+-]?[0-9]+ and value fits int64; then v == sdec(s)", func(c *ExtCtx) Val {
		s := c.args[0]
		if c.args[1].T != "10" || c.args[2].T != "64" {
			c.ex.unsupported("ParseInt with base/bits %s/%s", c.args[1].T, c.args[2].T)
			return c.tuple(c.fresh(0, "pi"), c.fresh(1, "pierr"))
		}
		v := c.fresh(0, "parseint")
		e := c.fresh(1, "parseint.err")
		c.st.assume(fmt.Sprintf("(= (= %s 0) (and (signedDec %s) (inS64 (sdec %s))))", e.T, s.T, s.T))
		c.st.assume(fmt.Sprintf("(=> (= %s 0) (= %s (sdec %s)))", e.T, v.T, s.T))
		// consequences of the two facts above, stated to spare the solver the string reasoning
		c.st.assume(fmt.Sprintf("(=> (= %s 0) (and (=> (not (= (str.at %s 0) \"-\")) (>= %s 0)) (=> (= (str.at %s 0) \"-\") (<= %s 0))))", e.T, s.T, v.T, s.T, v.T))
		// an all-digit string of at most 18 digits always fits (10^18 < 2^63): stated directly, it is a
		// consequence of the first fact that string solvers take tens of seconds to find
		c.st.assume(fmt.Sprintf("(=> (and (isDigits %s) (<= (str.len %s) 18)) (= %s 0))", s.T, s.T, e.T))
		return c.tuple(v, e)
	})
	ext("strings.ToLower", "ToLower(s) == lower(s) (ASCII model: idempotent, length preserving)", func(c *ExtCtx) Val {
		return c.mk(0, "(lower "+c.args[0].T+")")
	})
	ext("strings.HasSuffix", "HasSuffix(s,t) == str.suffixof t s", func(c *ExtCtx) Val {
		return c.mk(0, "(str.suffixof "+c.args[1].T+" "+c.args[0].T+")")
	})
	ext("strings.HasPrefix", "HasPrefix(s,t) == str.prefixof t s", func(c *ExtCtx) Val {
		return c.mk(0, "(str.prefixof "+c.args[1].T+" "+c.args[0].T+")")
	})
	ext("strings.LastIndex", "LastIndex(s,sep) for a 1-byte sep: -1 iff absent; else position of the last occurrence", func(c *ExtCtx) Val {
		s, sep := c.args[0].T, c.args[1].T
		r := c.fresh(0, "lastindex")
		c.st.assume(fmt.Sprintf("(= (= %s (- 1)) (not (str.contains %s %s)))", r.T, s, sep))
		c.st.assume(fmt.Sprintf("(>= %s (- 1))", r.T))
		c.st.assume(fmt.Sprintf("(=> (>= %s 0) (and (<= (+ %s (str.len %s)) (str.len %s)) (= (str.substr %s %s (str.len %s)) %s) (not (str.contains (str.substr %s (+ %s 1) (str.len %s)) %s))))", r.T, r.T, sep, s, s, r.T, sep, sep, s, r.T, s, sep))
		return r
	})
	ext("fmt.Sprintf", "Sprintf for the formats \"%dm\" and \"/%s/%s\" exactly; other formats give an unconstrained string", func(c *ExtCtx) Val {
		format := c.args[0].T
		elems := c.ex.sliceVals[c.args[1].T]
		payload := func(v Val) (Val, bool) {
			if kv, ok := c.ex.known[v.T]; ok && kv.Dyn != nil {
				return *kv.Dyn, true
			}
			if v.Dyn != nil {
				return *v.Dyn, true
			}
			return Val{}, false
		}
		switch format {
		case "\"%dm\"":
			if len(elems) == 1 {
				if p, ok := payload(elems[0]); ok && p.S == "Int" {
					return c.mk(0, "(str.++ (itoa "+p.T+") \"m\")")
				}
			}
		case "\"/%s/%s\"":
			if len(elems) == 2 {
				a, ok1 := payload(elems[0])
				b, ok2 := payload(elems[1])
				if ok1 && ok2 && a.S == "String" && b.S == "String" {
					return c.mk(0, "(str.++ \"/\" "+a.T+" \"/\" "+b.T+")")
				}
			}
		}
		return c.fresh(0, "sprintf")
	})
	ext("fmt.Errorf", "Errorf returns a fresh non-nil error that is neither a status error nor a sentinel", func(c *ExtCtx) Val {
		return freshErr(c, "errorf")
	})
	ext("errors.New", "errors.New returns a fresh non-nil non-status error", func(c *ExtCtx) Val {
		return freshErr(c, "errnew")
	})
	ext("github.com/pkg/errors.Wrap", "errors.Wrap(e,msg): nil iff e nil; otherwise a fresh error wrapping e (errIs preserved, not itself a status error)", func(c *ExtCtx) Val {
		e := c.args[0]
		r := c.fresh(0, "wrap")
		c.st.assume("(= (= " + r.T + " 0) (= " + e.T + " 0))")
		c.st.assume("(=> (distinct " + r.T + " 0) (and (isFreshErr " + r.T + ") (= (errUnwrap " + r.T + ") " + e.T + ")))")
		c.st.assume("(forall ((t Int)) (! (=> (errIs " + e.T + " t) (errIs " + r.T + " t)) :pattern ((errIs " + r.T + " t))))")
		return r
	})
	ext("errors.Is", "errors.Is(e,t) == errIs(e,t): reflexive on non-nil, false for nil e", func(c *ExtCtx) Val {
		return c.mk(0, "(errIs "+c.args[0].T+" "+c.args[1].T+")")
	})
	ext("(error).Error", "err.Error() == errText(err)", func(c *ExtCtx) Val {
		return c.mk(0, "(errText "+c.args[0].T+")")
	})

	// ---------- sync ----------
	ext("(*sync.Mutex).Lock", "monitor rule: Lock havocs the guarded state and assumes the lock invariant", func(c *ExtCtx) Val {
		c.ex.lock(c.st, c.fr, c.instr, c.args[0])
		return c.unit()
	})
	ext("(*sync.Mutex).Unlock", "monitor rule: Unlock asserts the lock invariant; Unlock requires held", func(c *ExtCtx) Val {
		c.ex.unlock(c.st, c.fr, c.instr, c.args[0])
		return c.unit()
	})
	ext("(*sync.WaitGroup).Add", "WaitGroup counter += n", func(c *ExtCtx) Val {
		p := c.args[0]
		arr := "wg." + lockKeyOf(p)
		c.st.write(arr, "Int", p.T, "(+ "+c.st.read(arr, "Int", p.T)+" "+c.args[1].T+")")
		return c.unit()
	})
	ext("(*sync.WaitGroup).Done", "WaitGroup counter -= 1; a negative counter panics", func(c *ExtCtx) Val {
		p := c.args[0]
		arr := "wg." + lockKeyOf(p)
		cur := c.st.read(arr, "Int", p.T)
		c.ex.safety(c.st, c.fr, c.instr, "waitgroup", "negative", "(>= "+cur+" 1)")
		c.st.write(arr, "Int", p.T, "(- "+cur+" 1)")
		return c.unit()
	})
	ext("(*sync.WaitGroup).Wait", "WaitGroup.Wait returns only when the counter is 0 (partial correctness)", func(c *ExtCtx) Val {
		return c.unit()
	})
	ext("sync/atomic.AddUint64", "atomic.AddUint64(p,d): atomically *p += d (mod 2^64), returns the new value", func(c *ExtCtx) Val {
		p := c.args[0]
		c.ex.disciplineAtomic(c.st, c.fr, c.instr, p)
		// another thread may have advanced the counter: it is monotone, not stable
		old := c.st.fresh("atomic.old", "Int")
		c.st.assume("(inU64 " + old + ")")
		c.st.assume("(>= " + old + " " + c.st.read(p.Arr, "Int", p.T) + ")")
		nv := c.st.bind("atomic.new", "Int", "(wrapU64 (+ "+old+" "+c.args[1].T+"))")
		c.st.write(p.Arr, "Int", p.T, nv)
		return c.mk(0, nv)
	})
	ext("(*sync/atomic.Int64).Load", "atomic load: any value (other threads may store)", func(c *ExtCtx) Val {
		c.ex.disciplineAtomic(c.st, c.fr, c.instr, c.args[0])
		return c.fresh(0, "aload")
	})
	ext("(*sync/atomic.Int64).Store", "atomic store", func(c *ExtCtx) Val {
		c.ex.disciplineAtomic(c.st, c.fr, c.instr, c.args[0])
		return c.unit()
	})

	// ---------- time ----------
	ext("time.Now", "time.Now(): fresh value", func(c *ExtCtx) Val { return c.ex.symVal(c.st, c.resT, "now") })
	ext("time.Until", "time.Until(t): fresh duration d (the clock is not modelled); d is remembered as until(t)", func(c *ExtCtx) Val {
		return c.fresh(0, "until")
	})
	ext("(time.Time).Add", "Time.Add: fresh time", func(c *ExtCtx) Val { return c.ex.symVal(c.st, c.resT, "tadd") })
	ext("(time.Time).Unix", "Time.Unix: fresh int64", func(c *ExtCtx) Val { return c.fresh(0, "unix") })
	ext("(time.Duration).Seconds", "Duration.Seconds: fresh float (floats are not modelled)", func(c *ExtCtx) Val { return c.fresh(0, "secs") })
}

func freshErr(c *ExtCtx, prefix string) Val {
	r := c.ex.symVal(c.st, c.resT, prefix)
	c.st.assume("(distinct " + r.T + " 0)")
	c.st.assume("(isFreshErr " + r.T + ")")
	c.st.assume("(not (isStatus " + r.T + "))")
	return r
}

// ---------- helpers for struct arguments ----------

func (c *ExtCtx) field(p Val, name string) Val {
	s := structOf(derefType(p.Typ))
	if s == nil {
		c.ex.unsupported("external %s: field %s of non-struct", c.name, name)
		return Val{T: "0", S: "Int"}
	}
	pp := p
	if pp.Root == "" {
		pp = c.ex.mkVal(p.Typ, p.T)
	}
	idx, emb := findField(s, name)
	if idx < 0 {
		c.ex.unsupported("external %s: no field %s", c.name, name)
		return Val{T: "0", S: "Int"}
	}
	for _, e := range emb {
		pp = c.ex.fieldPtr(pp, e)
	}
	return c.ex.load(c.st, c.ex.fieldPtr(pp, idx))
}

func (c *ExtCtx) setField(p Val, name string, v string) {
	s := structOf(derefType(p.Typ))
	pp := p
	if pp.Root == "" {
		pp = c.ex.mkVal(p.Typ, p.T)
	}
	idx, emb := findField(s, name)
	if idx < 0 {
		c.ex.unsupported("external %s: no field %s", c.name, name)
		return
	}
	for _, e := range emb {
		pp = c.ex.fieldPtr(pp, e)
	}
	fp := c.ex.fieldPtr(pp, idx)
	so := sortOf(derefType(fp.Typ))
	if so == "" {
		so = "Int"
	}
	c.st.write(fp.Arr, so, fp.T, v)
}

const (
	pkgStatus  = "google.golang.org/grpc/status"
	pkgIStatus = "google.golang.org/grpc/internal/status"
	pkgCodes   = "google.golang.org/grpc/codes"
)

func init() {
	// ---------- grpc status (read from grpc v1.66.0) ----------
	ext(pkgStatus+".FromProto", "status.FromProto(p): a *Status carrying p.Code, p.Message, p.Details", func(c *ExtCtx) Val {
		p := c.args[0]
		code := c.field(p, "Code").T
		msg := c.field(p, "Message").T
		det := c.field(p, "Details").T
		return c.mk(0, c.st.bind("status", "Int", "(mkStatus "+code+" "+msg+" "+det+")"))
	})
	errOf := func(c *ExtCtx) Val { return c.mk(0, "(sErr "+c.args[0].T+")") }
	ext("(*"+pkgIStatus+".Status).Err", "(*Status).Err(): nil iff code OK (or nil status); else a fresh status error carrying code/message/details", errOf)
	codeOf := func(c *ExtCtx) Val { return c.mk(0, "(sCode "+c.args[0].T+")") }
	ext("(*"+pkgIStatus+".Status).Code", "(*Status).Code(): the code; OK for a nil *Status", codeOf)
	protoOf := func(c *ExtCtx) Val {
		s := c.args[0]
		ref := c.ex.allocRef()
		pv := c.ex.mkVal(c.resType(0), ref)
		c.ex.zeroObject(c.st, pv)
		c.setField(pv, "Code", "(sCode "+s.T+")")
		c.setField(pv, "Message", "(sMsg "+s.T+")")
		c.setField(pv, "Details", "(sDetails "+s.T+")")
		out := pv
		out.T = c.st.bind("proto", "Int", smtIte("(= "+s.T+" 0)", "0", ref))
		return out
	}
	ext("(*"+pkgIStatus+".Status).Proto", "(*Status).Proto(): nil for a nil status, else a fresh *spb.Status copy of code/message/details", protoOf)
	ext(pkgStatus+".FromError", "status.FromError(e): (nil,true) for nil; status errors give their status and true; other errors give (Unknown, e.Error()) and false", func(c *ExtCtx) Val {
		e := c.args[0]
		s := c.fresh(0, "fromerr")
		ok := c.fresh(1, "fromerr.ok")
		st := c.st
		st.assume("(=> (= " + e.T + " 0) (and (= " + s.T + " 0) " + ok.T + "))")
		st.assume("(=> (and (distinct " + e.T + " 0) (isStatus " + e.T + ")) (and " + ok.T + " (distinct " + s.T + " 0) (= (sCode " + s.T + ") (stCode " + e.T + ")) (= (sMsg " + s.T + ") (stMsg " + e.T + ")) (= (sDetails " + s.T + ") (stDetails " + e.T + "))))")
		st.assume("(=> (and (distinct " + e.T + " 0) (not (isStatus " + e.T + "))) (and (not " + ok.T + ") (distinct " + s.T + " 0) (= (sCode " + s.T + ") 2) (= (sMsg " + s.T + ") (errText " + e.T + ")) (= (sDetails " + s.T + ") 0)))")
		return c.tuple(s, ok)
	})
	ext(pkgStatus+".FromContextError", "status.FromContextError(e): nil for nil; DeadlineExceeded/Canceled for the context errors; else Unknown; message e.Error()", func(c *ExtCtx) Val {
		e := c.args[0]
		s := c.fresh(0, "fromctxerr")
		st := c.st
		dl := c.ex.sentinel(st, "context", "DeadlineExceeded")
		cn := c.ex.sentinel(st, "context", "Canceled")
		st.assume("(= (= " + s.T + " 0) (= " + e.T + " 0))")
		st.assume("(=> (distinct " + e.T + " 0) (and (= (sMsg " + s.T + ") (errText " + e.T + ")) (= (sDetails " + s.T + ") 0) (= (sCode " + s.T + ") (ite (errIs " + e.T + " " + dl + ") 4 (ite (errIs " + e.T + " " + cn + ") 1 2)))))")
		return s
	})
	ext(pkgStatus+".New", "status.New(c,msg): a *Status with that code and message", func(c *ExtCtx) Val {
		return c.mk(0, c.st.bind("status", "Int", "(mkStatus "+c.args[0].T+" "+c.args[1].T+" 0)"))
	})
	ext(pkgStatus+".Error", "status.Error(c,msg) == New(c,msg).Err()", func(c *ExtCtx) Val {
		return c.mk(0, c.st.bind("sterr", "Int", "(sErr (mkStatus "+c.args[0].T+" "+c.args[1].T+" 0))"))
	})
	ext(pkgStatus+".Errorf", "status.Errorf(c,format,args...) == New(c,<some text>).Err(): the text is left uninterpreted", func(c *ExtCtx) Val {
		msg := c.st.fresh("errorfMsg", "String")
		return c.mk(0, c.st.bind("sterr", "Int", "(sErr (mkStatus "+c.args[0].T+" "+msg+" 0))"))
	})
	ext("("+pkgCodes+".Code).String", "codes.Code.String(): uninterpreted codeString(c); codeString(OK) == \"OK\"", func(c *ExtCtx) Val {
		return c.mk(0, "(codeString "+c.args[0].T+")")
	})
}

// sentinel returns the value of an error-typed package variable of a dependency.
func (ex *Exec) sentinel(st *State, pkg, name string) string {
	g := ex.findGlobal(pkg, name)
	if g == nil {
		ex.unsupported("sentinel %s.%s not found", pkg, name)
		return "0"
	}
	ga := ex.globalAddr(g)
	v := ex.load(st, ga)
	return v.T
}

const (
	pkgTypes    = "types"
	pkgStats    = "google.golang.org/grpc/stats"
	pkgEncoding = "google.golang.org/grpc/encoding"
	pkgMem      = "google.golang.org/grpc/mem"
	pkgMetadata = "google.golang.org/grpc/metadata"
	pkgGrpc     = "google.golang.org/grpc"
)

func init() {
	externalDocs["context.CancelFunc"] = "calling a context.CancelFunc/CancelCauseFunc f makes the context cancels(f) done"
}

func isCancelFuncType(t types.Type) bool {
	if n, ok := types.Unalias(t).(*types.Named); ok && n.Obj().Pkg() != nil && n.Obj().Pkg().Path() == "context" {
		return n.Obj().Name() == "CancelFunc" || n.Obj().Name() == "CancelCauseFunc"
	}
	return false
}

// cancelCall: calling a context.CancelFunc marks the context it cancels as done.
func (ex *Exec) cancelCall(st *State, f Val) {
	st.write("ctxdone", "Bool", "(cancels "+f.T+")", "true")
}

func (c *ExtCtx) newCtx(parent Val, prefix string) Val {
	return c.newCtxMd(parent, prefix, "")
}

// newCtxMd: child context; incoming metadata inherited from the parent unless mdIn is given
func (c *ExtCtx) newCtxMd(parent Val, prefix string, mdIn string) Val {
	ref := c.ex.allocRef()
	c.st.assume("(= (ctx_parent " + ref + ") " + parent.T + ")")
	c.st.write("ctxdone", "Bool", ref, c.st.read("ctxdone", "Bool", parent.T))
	// descendant relation, instantiated for the ancestors known on this path
	c.st.assume("(desc " + ref + " " + parent.T + ")")
	anc := append([]string{parent.T}, c.ex.ancestors[parent.T]...)
	for _, a := range c.ex.ancestors[parent.T] {
		c.st.assume("(desc " + ref + " " + a + ")")
	}
	c.ex.ancestors[ref] = anc
	// values (incoming/outgoing metadata, transport stream) are inherited unless overridden
	if mdIn == "" {
		c.st.assume("(= (ctx_md_in " + ref + ") (ctx_md_in " + parent.T + "))")
	} else {
		c.st.assume("(= (ctx_md_in " + ref + ") " + mdIn + ")")
	}
	c.st.assume("(= (ctx_md_out " + ref + ") (ctx_md_out " + parent.T + "))")
	c.st.assume("(= (ctx_has_md_out " + ref + ") (ctx_has_md_out " + parent.T + "))")
	return c.ex.mkVal(parent.Typ, ref)
}

// inheritDeadline: contexts derived without a new deadline keep the parent's
func (c *ExtCtx) inheritDeadline(ctx, parent Val) {
	c.st.assume("(= (ctx_hasdl " + ctx.T + ") (ctx_hasdl " + parent.T + "))")
	c.st.assume("(= (ctx_newdl " + ctx.T + ") (ctx_newdl " + parent.T + "))")
}

func (c *ExtCtx) newCancel(ctx Val, t types.Type) Val {
	f := c.ex.allocRef()
	c.st.assume("(= (cancels " + f + ") " + ctx.T + ")")
	return c.ex.mkVal(t, f)
}

func init() {
	// ---------- transports (A-transport) ----------
	ext("("+pkgTypes+".RpcReadWriter).Write", "RpcReadWriter.Write(ctx,rpc): any error; the attempt is counted in ncalls (wire log)", func(c *ExtCtx) Val {
		return c.fresh(0, "write.err")
	})
	ext("("+pkgTypes+".RpcReadWriter).Read", "RpcReadWriter.Read(ctx): (rpc, err) with err == nil ==> rpc != nil  (A-transport: exactly one of envelope and error is nil; a read error is not an OK-coded status error)", func(c *ExtCtx) Val {
		r := c.fresh(0, "read.rpc")
		e := c.fresh(1, "read.err")
		c.st.assume("(= (= " + e.T + " 0) (distinct " + r.T + " 0))")
		c.st.assume("(>= " + r.T + " 0)")
		// A-transport: a read failure is never an OK-coded status error
		c.st.assume("(=> (distinct " + e.T + " 0) (not (and (isStatus " + e.T + ") (= (stCode " + e.T + ") 0))))")
		return c.tuple(r, e)
	})

	// ---------- context (A-ctx) ----------
	ext("(context.Context).Done", "ctx.Done(): a channel that is closed iff the context is done", func(c *ExtCtx) Val {
		v := c.mk(0, "(ctx_donech "+c.args[0].T+")")
		v.Origin = "ctxdone:" + c.args[0].T
		return v
	})
	ext("(context.Context).Err", "ctx.Err(): non-nil iff the context is done (monotone); then Canceled or DeadlineExceeded", func(c *ExtCtx) Val {
		c.ex.observeCtx(c.st)
		e := c.fresh(0, "ctxerr")
		st := c.st
		dl := c.ex.sentinel(st, "context", "DeadlineExceeded")
		cn := c.ex.sentinel(st, "context", "Canceled")
		st.assume("(= (distinct " + e.T + " 0) " + st.read("ctxdone", "Bool", c.args[0].T) + ")")
		st.assume("(=> (distinct " + e.T + " 0) (and (or (= " + e.T + " " + dl + ") (= " + e.T + " " + cn + ")) (not (isStatus " + e.T + "))))")
		return e
	})
	ext("(context.Context).Deadline", "ctx.Deadline(): (ctx_deadline(ctx), ctx_hasdl(ctx))", func(c *ExtCtx) Val {
		t := c.ex.symVal(c.st, c.resType(0), "deadline")
		return c.tuple(t, c.mk(1, "(ctx_hasdl "+c.args[0].T+")"))
	})
	ext("context.Background", "context.Background(): a context that is never done", func(c *ExtCtx) Val {
		v := c.mk(0, "ctx_background")
		c.st.assume("(> ctx_background 0)")
		return v
	})
	withCancel := func(c *ExtCtx) Val {
		ctx := c.newCtx(c.args[0], "ctx")
		c.inheritDeadline(ctx, c.args[0])
		return c.tuple(ctx, c.newCancel(ctx, c.resType(1)))
	}
	ext("context.WithCancel", "WithCancel(p): fresh child c (parent(c)==p, done(p) ==> done(c)) and a cancel function for c", withCancel)
	ext("context.WithCancelCause", "WithCancelCause(p): as WithCancel", withCancel)
	ext("context.WithTimeout", "WithTimeout(p,d): fresh child with a deadline (ctx_hasdl), ctx_timeout(c)==d, and a cancel function", func(c *ExtCtx) Val {
		ctx := c.newCtx(c.args[0], "ctx")
		c.st.assume("(ctx_hasdl " + ctx.T + ")")
		c.st.assume("(ctx_newdl " + ctx.T + ")")
		c.st.assume("(= (ctx_timeout " + ctx.T + ") " + c.args[1].T + ")")
		return c.tuple(ctx, c.newCancel(ctx, c.resType(1)))
	})
	ext("context.WithDeadline", "WithDeadline(p,t): fresh child with a deadline and a cancel function", func(c *ExtCtx) Val {
		ctx := c.newCtx(c.args[0], "ctx")
		c.st.assume("(ctx_hasdl " + ctx.T + ")")
		return c.tuple(ctx, c.newCancel(ctx, c.resType(1)))
	})
	ext("context.Cause", "context.Cause(ctx): non-nil if the context is done", func(c *ExtCtx) Val {
		c.ex.observeCtx(c.st)
		e := c.fresh(0, "cause")
		c.st.assume("(=> " + c.st.read("ctxdone", "Bool", c.args[0].T) + " (distinct " + e.T + " 0))")
		return e
	})

	// ---------- stats handlers ----------
	ext("("+pkgStats+".Handler).TagRPC", "stats.Handler.TagRPC(ctx,info): returns a context whose parent is ctx (F1: no goat state touched)", func(c *ExtCtx) Val {
		ctx := c.newCtx(c.args[1], "tagged")
		c.inheritDeadline(ctx, c.args[1])
		return ctx
	})
	ext("("+pkgStats+".Handler).TagConn", "stats.Handler.TagConn(ctx,info): returns a context whose parent is ctx", func(c *ExtCtx) Val {
		ctx := c.newCtx(c.args[1], "tagged")
		c.inheritDeadline(ctx, c.args[1])
		return ctx
	})
	ext("("+pkgStats+".Handler).HandleRPC", "stats.Handler.HandleRPC(ctx,ev): no effect on goat state; counted per event type", func(c *ExtCtx) Val {
		if ev := c.args[2]; ev.Dyn != nil {
			c.st.bump("HandleRPC:" + typeKey(ev.Dyn.Typ))
		} else if kv, ok := c.ex.known[ev.T]; ok && kv.Dyn != nil {
			c.st.bump("HandleRPC:" + typeKey(kv.Dyn.Typ))
		}
		return c.unit()
	})
	ext("("+pkgStats+".Handler).HandleConn", "stats.Handler.HandleConn(ctx,ev): no effect on goat state; counted per event type", func(c *ExtCtx) Val {
		if ev := c.args[2]; ev.Dyn != nil {
			c.st.bump("HandleConn:" + typeKey(ev.Dyn.Typ))
		}
		return c.unit()
	})

	// ---------- codec / mem ----------
	ext(pkgEncoding+".GetCodecV2", "encoding.GetCodecV2: a non-nil codec", func(c *ExtCtx) Val {
		v := c.fresh(0, "codec")
		c.st.assume("(distinct " + v.T + " 0)")
		return v
	})
	ext("("+pkgEncoding+".CodecV2).Marshal", "codec.Marshal(m): (bs, err); err == nil ==> bsContent(bs) == protoBytes(m)", func(c *ExtCtx) Val {
		bs := c.fresh(0, "marshal.bs")
		e := c.fresh(1, "marshal.err")
		c.st.assume("(=> (= " + e.T + " 0) (= (bsContent " + bs.T + ") (protoBytes " + c.args[1].T + ")))")
		return c.tuple(bs, e)
	})
	ext("("+pkgEncoding+".CodecV2).Unmarshal", "codec.Unmarshal(bs,m): any error; writes only *m (not goat state)", func(c *ExtCtx) Val {
		return c.fresh(0, "unmarshal.err")
	})
	ext("("+pkgMem+".BufferSlice).Materialize", "BufferSlice.Materialize(): the concatenated bytes, as value bsContent(bs)", func(c *ExtCtx) Val {
		return c.mk(0, "(bsContent "+c.args[0].T+")")
	})
	ext("("+pkgMem+".BufferSlice).Len", "BufferSlice.Len(): fresh non-negative int", func(c *ExtCtx) Val {
		v := c.fresh(0, "bslen")
		c.st.assume("(>= " + v.T + " 0)")
		return v
	})
	ext(pkgMem+".NewBuffer", "mem.NewBuffer(&data,pool): a buffer b with bufContent(b) == data", func(c *ExtCtx) Val {
		d := c.ex.load(c.st, c.args[0])
		b := c.fresh(0, "buf")
		c.st.assume("(distinct " + b.T + " 0)")
		c.st.assume("(= (bufContent " + b.T + ") " + d.T + ")")
		return b
	})
	ext(pkgGrpc+".NewContextWithServerTransportStream", "grpc.NewContextWithServerTransportStream(ctx,s): child context carrying s", func(c *ExtCtx) Val {
		ctx := c.newCtx(c.args[0], "stsctx")
		c.inheritDeadline(ctx, c.args[0])
		c.st.assume("(= (ctx_sts " + ctx.T + ") " + c.args[1].T + ")")
		return ctx
	})
}

func init() {
	// ---------- metadata (A-md) ----------
	ext(pkgMetadata+".NewIncomingContext", "metadata.NewIncomingContext(p,md): child context c with incoming metadata md", func(c *ExtCtx) Val {
		ref := c.newCtxMd(c.args[0], "inctx", c.args[1].T)
		c.inheritDeadline(ref, c.args[0])
		return ref
	})
	ext(pkgMetadata+".FromIncomingContext", "metadata.FromIncomingContext(ctx): (md, ok) - unconstrained here", func(c *ExtCtx) Val {
		return c.tuple(c.fresh(0, "inmd"), c.fresh(1, "inmd.ok"))
	})
	ext(pkgMetadata+".FromOutgoingContext", "metadata.FromOutgoingContext(ctx): (ctx_md_out(ctx), ctx_has_md_out(ctx))", func(c *ExtCtx) Val {
		return c.tuple(c.mk(0, "(ctx_md_out "+c.args[0].T+")"), c.mk(1, "(ctx_has_md_out "+c.args[0].T+")"))
	})
	ext(pkgMetadata+".Join", "metadata.Join(mds...): a fresh non-nil MD (per-key concatenation in argument order: joinOf(mds))", func(c *ExtCtx) Val {
		m := c.fresh(0, "joined")
		c.st.assume("(distinct " + m.T + " 0)")
		c.st.assume("(= " + m.T + " (mdJoin " + c.args[0].T + "))")
		return m
	})
	// user code reached through function-valued fields (A-user, F1)
	ext("fnfield:H.google.golang.org/grpc.MethodDesc.Handler", "grpc.MethodDesc.Handler(srv,ctx,dec,interceptor): user handler; may call dec and set headers/trailers on the unary transport stream; writes no other goat state", func(c *ExtCtx) Val {
		for _, a := range externalWrites["fnfield:H.google.golang.org/grpc.MethodDesc.Handler"] {
			c.st.havoc(a)
		}
		return c.tuple(c.fresh(0, "handler.resp"), c.fresh(1, "handler.err"))
	})
	externalWrites["fnfield:*"] = []string{
		"H.server.unaryServerTransportStream.headers", "H.server.unaryServerTransportStream.headersSent", "H.server.unaryServerTransportStream.trailers"}
	externalWrites["fnfield:H.google.golang.org/grpc.MethodDesc.Handler"] = []string{
		"H.server.unaryServerTransportStream.headers", "H.server.unaryServerTransportStream.headersSent", "H.server.unaryServerTransportStream.trailers"}
}

func init() {
	streamUser := func(c *ExtCtx) Val {
		// user stream handler / interceptor: may use the ServerStream it was given (SetHeader, SendMsg,
		// RecvMsg ...) and therefore changes that stream's protected state and causes transport writes
		for _, a := range externalWrites["fnfield:H.google.golang.org/grpc.StreamDesc.Handler"] {
			c.st.havoc(a)
		}
		for _, k := range []string{"(types.RpcReadWriter).Write", "(types.RpcReadWriter).Read", "send", "recv"} {
			old := c.st.counter(k)
			c.st.cnt[k] = c.st.fresh("cnt."+k, "Int")
			c.st.assume("(>= " + c.st.cnt[k] + " " + old + ")")
		}
		return c.fresh(0, "streamhandler.err")
	}
	ext("fnfield:H.google.golang.org/grpc.StreamDesc.Handler", "grpc.StreamDesc.Handler(srv,stream): user handler; may call the stream's methods (its protected header/trailer state and the number of writes change); writes no other goat state", streamUser)
	ext("fnfield:H.goat.Server.streamInterceptor", "stream interceptor(srv,stream,info,handler): user code; assumed to call handler exactly once (A-user, C20) and to use only the stream", streamUser)
	externalWrites["fnfield:H.google.golang.org/grpc.StreamDesc.Handler"] = []string{
		"H.server.serverStream.protected.headers", "H.server.serverStream.protected.headersSent", "H.server.serverStream.protected.trailers", "H.server.serverStream.protected.trailersSent"}
	externalWrites["fnfield:H.goat.Server.streamInterceptor"] = externalWrites["fnfield:H.google.golang.org/grpc.StreamDesc.Handler"]
	externalWrites["fnfield:*"] = append(externalWrites["fnfield:*"], externalWrites["fnfield:H.google.golang.org/grpc.StreamDesc.Handler"]...)
}

func init() {
	ext("golang.org/x/sync/errgroup.WithContext", "errgroup.WithContext(p): (non-nil group, fresh child context of p)", func(c *ExtCtx) Val {
		g := c.fresh(0, "errgroup")
		c.st.assume("(distinct " + g.T + " 0)")
		ctx := c.newCtx(c.args[0], "ctx")
		c.inheritDeadline(ctx, c.args[0])
		return c.tuple(g, ctx)
	})
	ext("(*golang.org/x/sync/errgroup.Group).Go", "errgroup.Group.Go(f): runs f on a new goroutine (the closure's captures clause is proved where it is created); writes no goat state", func(c *ExtCtx) Val {
		return Val{Typ: types.NewTuple()}
	})
	ext("(*golang.org/x/sync/errgroup.Group).Wait", "errgroup.Group.Wait(): blocks until the group's functions returned; any error", func(c *ExtCtx) Val {
		return c.fresh(0, "errgroup.err")
	})
}

func init() {
	ext("fnvalue:goat.NewConnection", "NewConnection(id): user dial function (A-user): (conn, err) with err == nil ==> conn != nil; writes no goat state", func(c *ExtCtx) Val {
		r := c.fresh(0, "dial.conn")
		e := c.fresh(1, "dial.err")
		c.st.assume("(=> (= " + e.T + " 0) (distinct " + r.T + " 0))")
		return c.tuple(r, e)
	})
}

func init() {
	ext("fnfield:H.goat.Proxy.rpcIntercepter", "RpcIntercepter(hdr): user code; free to rewrite the header's addressing fields (Destination, Source, Method, Headers); touches nothing else", func(c *ExtCtx) Val {
		for _, a := range externalWrites["fnfield:H.goat.Proxy.rpcIntercepter"] {
			c.st.havoc(a)
		}
		return c.fresh(0, "intercept.err")
	})
	externalWrites["fnfield:H.goat.Proxy.rpcIntercepter"] = []string{
		"H.goatorepo.RequestHeader.Destination", "H.goatorepo.RequestHeader.Source", "H.goatorepo.RequestHeader.Method", "H.goatorepo.RequestHeader.Headers"}
	externalWrites["fnfield:*"] = append(externalWrites["fnfield:*"], externalWrites["fnfield:H.goat.Proxy.rpcIntercepter"]...)
}

func init() {
	ext("google.golang.org/protobuf/proto.Unmarshal", "proto.Unmarshal(b,m): any error; on success *m is the decoded message (A-codec)", func(c *ExtCtx) Val {
		// the target message is overwritten: havoc the envelope's top-level fields
		for _, a := range externalWrites["google.golang.org/protobuf/proto.Unmarshal"] {
			c.st.havoc(a)
		}
		return c.fresh(0, "unmarshal.err")
	})
	externalWrites["google.golang.org/protobuf/proto.Unmarshal"] = []string{"H.goatorepo.Rpc.Id", "H.goatorepo.Rpc.Header", "H.goatorepo.Rpc.Status", "H.goatorepo.Rpc.Body", "H.goatorepo.Rpc.Trailer", "H.goatorepo.Rpc.Reset_"}
	ext("google.golang.org/protobuf/proto.Marshal", "proto.Marshal(m): (bytes, err); err == nil ==> bytes == protoBytes(m)", func(c *ExtCtx) Val {
		b := c.fresh(0, "marshal.bytes")
		e := c.fresh(1, "marshal.err")
		c.st.assume("(=> (= " + e.T + " 0) (= " + b.T + " (protoBytes " + c.args[0].T + ")))")
		return c.tuple(b, e)
	})
	ext("(*github.com/coder/websocket.Conn).Read", "websocket.Conn.Read(ctx): (type, bytes, err) arbitrary", func(c *ExtCtx) Val {
		return c.tuple(c.fresh(0, "ws.typ"), c.fresh(1, "ws.data"), c.fresh(2, "ws.err"))
	})
	ext("(*github.com/coder/websocket.Conn).Write", "websocket.Conn.Write(ctx,type,bytes): any error", func(c *ExtCtx) Val {
		return c.fresh(0, "ws.werr")
	})
}

func init() {
	ext("(*net/http.Request).Context", "http.Request.Context(): a non-nil context", func(c *ExtCtx) Val {
		v := c.fresh(0, "reqctx")
		c.st.assume("(distinct " + v.T + " 0)")
		return v
	})
	ext("net/http.NewRequest", "http.NewRequest: (req, err) with err == nil ==> req != nil && req.Header != nil", func(c *ExtCtx) Val {
		r := c.fresh(0, "httpreq")
		e := c.fresh(1, "httpreq.err")
		c.st.assume("(= (= " + e.T + " 0) (distinct " + r.T + " 0))")
		c.st.assume("(=> (distinct " + r.T + " 0) (distinct " + c.field(r, "Header").T + " 0))")
		return c.tuple(r, e)
	})
	ext("(*net/http.Client).Do", "http.Client.Do: (resp, err) with err == nil ==> resp != nil && resp.Body != nil", func(c *ExtCtx) Val {
		r := c.fresh(0, "httpresp")
		e := c.fresh(1, "httpresp.err")
		c.st.assume("(= (= " + e.T + " 0) (distinct " + r.T + " 0))")
		c.st.assume("(=> (distinct " + r.T + " 0) (distinct " + c.field(r, "Body").T + " 0))")
		return c.tuple(r, e)
	})
	ext("bytes.NewBuffer", "bytes.NewBuffer: non-nil buffer", func(c *ExtCtx) Val {
		r := c.fresh(0, "buf")
		c.st.assume("(distinct " + r.T + " 0)")
		return r
	})
}

func init() {
	ext("github.com/jonboulle/clockwork.NewRealClock", "clockwork.NewRealClock(): a non-nil clock", func(c *ExtCtx) Val {
		v := c.fresh(0, "clock")
		c.st.assume("(distinct " + v.T + " 0)")
		return v
	})
	ext("(github.com/jonboulle/clockwork.Clock).NewTicker", "clockwork.Clock.NewTicker: a non-nil ticker", func(c *ExtCtx) Val {
		r := c.fresh(0, "ticker")
		c.st.assume("(distinct " + r.T + " 0)")
		return r
	})
	ext("(github.com/jonboulle/clockwork.Ticker).Chan", "clockwork.Ticker.Chan: the ticker's channel (never closed by goat)", func(c *ExtCtx) Val {
		r := c.fresh(0, "tickch")
		c.st.assume("(distinct " + r.T + " 0)")
		return r
	})
}

func init() {
	b64 := func(c *ExtCtx) string {
		t := c.args[0].T + " " + c.args[0].OriginRef
		switch {
		case strings.Contains(t, "RawURLEncoding"):
			return "b64rawurl"
		case strings.Contains(t, "URLEncoding"):
			return "b64url"
		case strings.Contains(t, "RawStdEncoding"):
			return "b64rawstd"
		case strings.Contains(t, "StdEncoding"):
			return "b64std"
		}
		return "b64unknown"
	}
	ext("(*encoding/base64.Encoding).EncodeToString", "base64 EncodeToString: enc_E(bytes), one uninterpreted function per encoding E; dec_E(enc_E(b)) == b", func(c *ExtCtx) Val {
		e := b64(c)
		if e != "b64url" && e != "b64std" {
			return c.fresh(0, "b64enc")
		}
		return c.mk(0, "("+e+"_enc (bytes2str "+c.args[1].T+"))")
	})
	ext("(*encoding/base64.Encoding).DecodeString", "base64 DecodeString: (dec_E(s), nil) iff ok_E(s)", func(c *ExtCtx) Val {
		e := b64(c)
		if e != "b64url" && e != "b64std" {
			return c.tuple(c.fresh(0, "b64dec"), c.fresh(1, "b64err"))
		}
		er := c.fresh(1, "b64err")
		c.st.assume("(= (= " + er.T + " 0) (" + e + "_ok " + c.args[1].T + "))")
		return c.tuple(c.mk(0, "(str2bytes ("+e+"_dec "+c.args[1].T+"))"), er)
	})
}
