module goatvc

go 1.23

require golang.org/x/tools v0.29.0
