package main

import (
	"fmt"
	"go/types"
	"sort"
	"strings"

	"golang.org/x/tools/go/ssa"
)

// LockRef identifies a held mutex: the struct object ref + static path to the mutex field.
type LockRef struct {
	Key string // e.g. client.RpcMultiplexer.mutex
	Ref string // SMT term of the object containing it
}

type State struct {
	ex        *Exec
	pc        []string          // assumed facts (SMT Bool terms)
	decls     []string          // constants introduced on this path
	heap      map[string]string // array name -> current constant
	cnt       map[string]string // ghost counters -> Int term
	held      []LockRef
	trace     []string // human-readable path trace (block labels / notable events)
	pinned    []string // channel terms whose closedness is owned by this thread
	published map[string]bool
	dirty  map[string]bool // heap arrays written at a reference that is not an object allocated on this path
	cells  map[string]Val // values stored in cells of objects allocated on this path (arr@ref -> value)
	dead      bool
}

func (st *State) clone() *State {
	n := &State{ex: st.ex}
	n.pc = st.pc[:len(st.pc):len(st.pc)]
	n.decls = st.decls[:len(st.decls):len(st.decls)]
	n.trace = st.trace[:len(st.trace):len(st.trace)]
	n.held = append([]LockRef(nil), st.held...)
	n.pinned = append([]string(nil), st.pinned...)
	n.heap = make(map[string]string, len(st.heap))
	for k, v := range st.heap {
		n.heap[k] = v
	}
	n.published = make(map[string]bool, len(st.published))
	for k, v := range st.published {
		n.published[k] = v
	}
	n.dirty = make(map[string]bool, len(st.dirty))
	for k, v := range st.dirty {
		n.dirty[k] = v
	}
	n.cells = make(map[string]Val, len(st.cells))
	for k, v := range st.cells {
		n.cells[k] = v
	}
	n.cnt = make(map[string]string, len(st.cnt))
	for k, v := range st.cnt {
		n.cnt[k] = v
	}
	return n
}

func (st *State) fresh(prefix, sort string) string {
	ex := st.ex
	ex.nfresh++
	name := fmt.Sprintf("%s_%d", smtSym(prefix), ex.nfresh)
	ex.sorts[name] = sort
	st.decls = append(st.decls, name)
	return name
}

func (st *State) assume(t string) {
	if t == "true" || t == "" {
		return
	}
	st.pc = append(st.pc, t)
}

func (st *State) note(s string) { st.trace = append(st.trace, s) }

// bind introduces a named constant equal to term (keeps terms small).
func (st *State) bind(prefix, sort, term string) string {
	if len(term) < 24 && !strings.Contains(term, "(") {
		return term
	}
	n := st.fresh(prefix, sort)
	st.assume(smtEq(n, term))
	return n
}

// ---- heap ----

func arraySort(elemSort string) string { return "(Array Int " + elemSort + ")" }

// arr returns the current constant for the named heap array (index sort Int).
func (st *State) arr(name, elemSort string) string {
	if c, ok := st.heap[name]; ok {
		return c
	}
	ex := st.ex
	c, ok := ex.heapInit[name]
	if !ok {
		c = smtSym(name) + "_0"
		ex.heapInit[name] = c
		ex.heapSort[name] = elemSort
		knownArrays[name] = true
		ex.sorts[c] = arraySort(elemSort)
	} else if ex.heapSort[name] != elemSort {
		ex.unsupported("heap array %s used at sorts %s and %s", name, ex.heapSort[name], elemSort)
	}
	return c
}

func (st *State) declsFor(c string) {}

func (st *State) read(name, elemSort, ref string) string {
	return "(select " + st.arr(name, elemSort) + " " + ref + ")"
}

func (st *State) forget(name, ref string) {
	if len(st.cells) == 0 {
		return
	}
	if strings.HasPrefix(ref, "(- ") {
		delete(st.cells, name+"@"+ref)
		return
	}
	pre := name + "@"
	for k := range st.cells {
		if strings.HasPrefix(k, pre) {
			delete(st.cells, k)
		}
	}
}

func (st *State) write(name, elemSort, ref, val string) {
	if !strings.HasPrefix(ref, "(- ") && !strings.HasPrefix(ref, "(aidx (- ") {
		if st.dirty == nil {
			st.dirty = map[string]bool{}
		}
		st.dirty[name] = true
	}
	st.forget(name, ref)
	old := st.arr(name, elemSort)
	n := st.fresh(name, arraySort(elemSort))
	st.assume("(= " + n + " (store " + old + " " + ref + " " + val + "))")
	st.heap[name] = n
}

func (st *State) havoc(name string) {
	if st.dirty == nil {
		st.dirty = map[string]bool{}
	}
	st.dirty[name] = true
	st.forget(name, "")
	es, ok := st.ex.heapSort[name]
	if !ok {
		return // never touched: its initial constant is already unconstrained
	}
	st.arr(name, es)
	n := st.fresh(name, arraySort(es))
	st.heap[name] = n
}

// oldArr gives the constant an array had in the given snapshot.
func (st *State) arrIn(snapshot map[string]string, name, elemSort string) string {
	if c, ok := snapshot[name]; ok {
		return c
	}
	// not in snapshot: untouched at that time => initial constant
	st.arr(name, elemSort) // make sure it is declared
	return st.ex.heapInit[name]
}

func (st *State) snapshot() map[string]string {
	m := make(map[string]string, len(st.heap))
	for k, v := range st.heap {
		m[k] = v
	}
	return m
}

func (st *State) counter(key string) string {
	if c, ok := st.cnt[key]; ok {
		return c
	}
	ex := st.ex
	c, ok := ex.cntInit[key]
	if !ok {
		c = "cnt." + smtSym(key) + "_0"
		ex.cntInit[key] = c
		ex.sorts[c] = "Int"
	}
	return c
}

func (st *State) bump(key string) {
	c := st.counter(key)
	st.cnt[key] = st.bind("cnt."+key, "Int", "(+ "+c+" 1)")
}

func (st *State) isHeld(l LockRef) bool {
	for _, h := range st.held {
		if h == l {
			return true
		}
	}
	return false
}

func (st *State) heldKeys() []string {
	var ks []string
	for _, h := range st.held {
		ks = append(ks, h.Key)
	}
	sort.Strings(ks)
	return ks
}

// ---- frames ----

type deferred struct {
	call  *ssa.CallCommon
	fnv   Val
	args  []Val
	instr *ssa.Defer
}

type Frame struct {
	fn         *ssa.Function
	key        string
	vals       map[ssa.Value]Val
	names      map[string]Val
	defers     []deferred
	params     []Val
	binds      []Val
	entryHeap  map[string]string
	entryCnt   map[string]string
	cut        map[*ssa.BasicBlock]bool
	depth      int
	top        bool
	spec       *FuncSpec
	lastIter   *Val
	iterKeyT   types.Type
	results    Val
	loopEntry  map[int]map[string]string // loop ordinal -> heap snapshot at loop entry (for old-at-entry)
	loopEntryCnt map[int]map[string]string
	loopEntryNames map[int]map[string]Val
	iterStart      map[int]map[string]string // loop ordinal -> heap snapshot at the start of the current iteration (after havoc)
	iterStartCnt   map[int]map[string]string
	iterStartNames map[int]map[string]Val
	entryAlloc     int    // number of objects allocated before this frame started (fresh(x): allocated since)
	lastRecvOk     string // "ok" of the most recent channel receive in this frame ("" = none yet)
	nameAlias map[string]ssa.Value
	parent     *Frame
	lockSnap map[string]string
	pseudo   bool
	callSnaps map[string]map[string]string // callee name -> heap right after the latest call
	callRets  map[string]Val
	heldAtLoop []string
	heldAtLoopM map[*ssa.BasicBlock][]string
	retInstr   ssa.Instruction
	pending    *Val // the value about to be returned, while this frame's deferred calls run (spec name: returning)
}

func (fr *Frame) clone() *Frame {
	n := *fr
	n.vals = make(map[ssa.Value]Val, len(fr.vals))
	for k, v := range fr.vals {
		n.vals[k] = v
	}
	n.names = make(map[string]Val, len(fr.names))
	for k, v := range fr.names {
		n.names[k] = v
	}
	n.defers = append([]deferred(nil), fr.defers...)
	n.callSnaps = make(map[string]map[string]string, len(fr.callSnaps))
	for k, v := range fr.callSnaps {
		n.callSnaps[k] = v
	}
	n.callRets = make(map[string]Val, len(fr.callRets))
	for k, v := range fr.callRets {
		n.callRets[k] = v
	}
	n.cut = make(map[*ssa.BasicBlock]bool, len(fr.cut))
	for k, v := range fr.cut {
		n.cut[k] = v
	}
	return &n
}
