package main

import (
	"fmt"
	"os"
	"path/filepath"
	"regexp"
	"sort"
	"strconv"
	"strings"
)

// ---------- spec expression AST ----------

type SExpr struct {
	Op   string   // ident, int, str, bool, nil, un, bin, call, sel, index, slice, old, forall, exists, in, tuple-index
	Name string   // ident name / operator / function name / field
	Args []*SExpr // children
	Int  int64
	Str  string
	// quantifier
	Var     string
	VarSort string
	Pos     string
}

func (e *SExpr) String() string {
	switch e.Op {
	case "ident":
		return e.Name
	case "int":
		return fmt.Sprint(e.Int)
	case "str":
		return strconv.Quote(e.Str)
	case "bool", "nil":
		return e.Name
	case "un":
		return e.Name + e.Args[0].String()
	case "bin":
		return "(" + e.Args[0].String() + " " + e.Name + " " + e.Args[1].String() + ")"
	case "call":
		var as []string
		for _, a := range e.Args {
			as = append(as, a.String())
		}
		return e.Name + "(" + strings.Join(as, ", ") + ")"
	case "sel":
		return e.Args[0].String() + "." + e.Name
	case "index":
		return e.Args[0].String() + "[" + e.Args[1].String() + "]"
	case "forall", "exists":
		return "(" + e.Op + " " + e.Var + " " + e.VarSort + " :: " + e.Args[0].String() + ")"
	}
	return e.Op
}

type tok struct {
	k string // id, int, str, op, eof
	s string
}

func lexSpec(s string) ([]tok, error) {
	var ts []tok
	i := 0
	for i < len(s) {
		c := s[i]
		switch {
		case c == ' ' || c == '\t':
			i++
		case c >= '0' && c <= '9':
			j := i
			for j < len(s) && (s[j] >= '0' && s[j] <= '9' || s[j] == '_') {
				j++
			}
			ts = append(ts, tok{"int", strings.ReplaceAll(s[i:j], "_", "")})
			i = j
		case c == '_' || c >= 'a' && c <= 'z' || c >= 'A' && c <= 'Z':
			j := i
			for j < len(s) && (s[j] == '_' || s[j] == '$' || s[j] >= 'a' && s[j] <= 'z' || s[j] >= 'A' && s[j] <= 'Z' || s[j] >= '0' && s[j] <= '9') {
				j++
			}
			ts = append(ts, tok{"id", s[i:j]})
			i = j
		case c == '"':
			j := i + 1
			for j < len(s) && s[j] != '"' {
				if s[j] == '\\' {
					j++
				}
				j++
			}
			if j >= len(s) {
				return nil, fmt.Errorf("unterminated string")
			}
			u, err := strconv.Unquote(s[i : j+1])
			if err != nil {
				return nil, err
			}
			ts = append(ts, tok{"str", u})
			i = j + 1
		case c == '\'':
			u, _, _, err := strconv.UnquoteChar(s[i+1:], '\'')
			if err != nil {
				return nil, err
			}
			j := strings.IndexByte(s[i+1:], '\'')
			ts = append(ts, tok{"int", fmt.Sprint(int(u))})
			i = i + 1 + j + 1
		default:
			ops := []string{"<==>", "==>", "::", "==", "!=", "<=", ">=", "&&", "||", "<", ">", "+", "-", "*", "/", "%", "!", "(", ")", "[", "]", ",", ".", ":"}
			found := false
			for _, o := range ops {
				if strings.HasPrefix(s[i:], o) {
					ts = append(ts, tok{"op", o})
					i += len(o)
					found = true
					break
				}
			}
			if !found {
				return nil, fmt.Errorf("bad character %q in spec", c)
			}
		}
	}
	ts = append(ts, tok{"eof", ""})
	return ts, nil
}

type sparser struct {
	ts  []tok
	i   int
	err error
}

func (p *sparser) peek() tok { return p.ts[p.i] }
func (p *sparser) next() tok { t := p.ts[p.i]; p.i++; return t }
func (p *sparser) isOp(s string) bool {
	t := p.peek()
	return t.k == "op" && t.s == s
}
func (p *sparser) expect(s string) {
	if !p.isOp(s) {
		if p.err == nil {
			p.err = fmt.Errorf("expected %q, got %q", s, p.peek().s)
		}
		return
	}
	p.i++
}

var binPrec = map[string]int{
	"<==>": 1, "==>": 2, "||": 3, "&&": 4,
	"==": 5, "!=": 5, "<": 5, "<=": 5, ">": 5, ">=": 5, "in": 5,
	"+": 6, "-": 6, "*": 7, "/": 7, "%": 7,
}

func parseSpecExpr(s string) (*SExpr, error) {
	ts, err := lexSpec(s)
	if err != nil {
		return nil, err
	}
	p := &sparser{ts: ts}
	e := p.expr(0)
	if p.err == nil && p.peek().k != "eof" {
		p.err = fmt.Errorf("trailing tokens at %q", p.peek().s)
	}
	return e, p.err
}

func (p *sparser) expr(min int) *SExpr {
	if p.err != nil {
		return &SExpr{Op: "bool", Name: "true"}
	}
	// quantifiers: forall x Sort :: body   (lowest precedence, extends to the right)
	if t := p.peek(); t.k == "id" && (t.s == "forall" || t.s == "exists") {
		p.next()
		v := p.next()
		so := p.next()
		p.expect("::")
		body := p.expr(0)
		return &SExpr{Op: t.s, Var: v.s, VarSort: so.s, Args: []*SExpr{body}}
	}
	lhs := p.unary()
	for {
		t := p.peek()
		var op string
		if t.k == "op" {
			op = t.s
		} else if t.k == "id" && t.s == "in" {
			op = "in"
		} else {
			break
		}
		prec, ok := binPrec[op]
		if !ok || prec < min {
			break
		}
		p.next()
		var rhs *SExpr
		if op == "==>" || op == "<==>" {
			rhs = p.expr(prec) // right assoc
		} else {
			rhs = p.expr(prec + 1)
		}
		lhs = &SExpr{Op: "bin", Name: op, Args: []*SExpr{lhs, rhs}}
	}
	return lhs
}

func (p *sparser) unary() *SExpr {
	if p.isOp("!") {
		p.next()
		return &SExpr{Op: "un", Name: "!", Args: []*SExpr{p.unary()}}
	}
	if p.isOp("-") {
		p.next()
		return &SExpr{Op: "un", Name: "-", Args: []*SExpr{p.unary()}}
	}
	return p.postfix(p.primary())
}

func (p *sparser) primary() *SExpr {
	t := p.next()
	switch t.k {
	case "int":
		n, err := strconv.ParseInt(t.s, 10, 64)
		if err != nil {
			// big literal: keep text
			return &SExpr{Op: "bigint", Name: t.s}
		}
		return &SExpr{Op: "int", Int: n}
	case "str":
		return &SExpr{Op: "str", Str: t.s}
	case "id":
		switch t.s {
		case "true", "false":
			return &SExpr{Op: "bool", Name: t.s}
		case "nil":
			return &SExpr{Op: "nil", Name: "nil"}
		}
		if p.isOp("(") {
			p.next()
			var args []*SExpr
			for !p.isOp(")") && p.err == nil {
				args = append(args, p.expr(0))
				if p.isOp(",") {
					p.next()
				} else {
					break
				}
			}
			p.expect(")")
			if t.s == "old" && len(args) == 1 {
				return &SExpr{Op: "old", Args: args}
			}
			return &SExpr{Op: "call", Name: t.s, Args: args}
		}
		return &SExpr{Op: "ident", Name: t.s}
	case "op":
		if t.s == "(" {
			e := p.expr(0)
			p.expect(")")
			return e
		}
	}
	if p.err == nil {
		p.err = fmt.Errorf("unexpected token %q", t.s)
	}
	return &SExpr{Op: "bool", Name: "true"}
}

func (p *sparser) postfix(e *SExpr) *SExpr {
	for p.err == nil {
		switch {
		case p.isOp("."):
			p.next()
			t := p.next()
			if t.k != "id" && t.k != "int" {
				p.err = fmt.Errorf("bad selector %q", t.s)
				return e
			}
			e = &SExpr{Op: "sel", Name: t.s, Args: []*SExpr{e}}
		case p.isOp("["):
			p.next()
			var lo, hi *SExpr
			if !p.isOp(":") {
				lo = p.expr(0)
			}
			if p.isOp(":") {
				p.next()
				if !p.isOp("]") {
					hi = p.expr(0)
				}
				p.expect("]")
				e = &SExpr{Op: "slice", Args: []*SExpr{e, lo, hi}}
			} else {
				p.expect("]")
				e = &SExpr{Op: "index", Args: []*SExpr{e, lo}}
			}
		default:
			return e
		}
	}
	return e
}

// ---------- contract files ----------

type Clause struct {
	Kind   string // requires, ensures, invariant, assert-at-call, ...
	Labels []string
	Expr   *SExpr
	Text   string
	File   string
	Line   int
	Func   string
	// loop clauses
	Loop int
	// callsite clauses:  at call <calleeSubstring>#k
	Callee string
	Ord    int
}

func (c *Clause) hasProp(p string) bool {
	for _, l := range c.Labels {
		if l == p || strings.HasPrefix(l, p+".") {
			return true
		}
	}
	return false
}

func (c *Clause) props() []string {
	m := map[string]bool{}
	for _, l := range c.Labels {
		if i := strings.IndexByte(l, '.'); i > 0 {
			m[l[:i]] = true
		} else {
			m[l] = true
		}
	}
	var out []string
	for k := range m {
		out = append(out, k)
	}
	sort.Strings(out)
	return out
}

func (c *Clause) name() string {
	if len(c.Labels) > 0 {
		return c.Labels[0]
	}
	return c.Kind
}

type GhostMakeChan struct {
	Ord   int
	Tag   *SExpr
	Class string
	NC    bool // never closed
	Own   bool // closed only by its maker
}

type ChanClass struct {
	Name   string
	ID     int
	MsgInv *Clause
}

type FuncSpec struct {
	Key       string
	Requires  []*Clause
	Defines   []*Clause // provenance predicates: assumed at call sites, definitional (not checked in the body)
	Captures  []*Clause // closure preconditions over captured variables: proved where the closure is created
	Ensures   []*Clause
	LoopInv   map[int][]*Clause
	AtCall    []*Clause // asserted at matching call sites
	NoPanic   *Clause   // labels for implicit safety obligations
	CtxAware  *Clause   // every blocking channel operation must have a ctx.Done() alternative
	NonBlock  *Clause   // the function performs no blocking channel operation at all
	Modifies  []string  // heap arrays a caller must havoc ("*" = everything)
	HasMod    bool
	MakeChans []GhostMakeChan
	Pure      bool
	DeadReturns int       // return statements knowingly unreachable (defensive code)
	Once        bool      // closure passed to (*sync.Once).Do (runs at most once; checked syntactically)
	ReleasedBy  []*Clause // release signals accepted for blocking selects under a teardown lock
	Escape      []*Clause // channels that must offer a receive alternative at every blocking operation
	TrustResult string // reason why objinv(result) is assumed for this function
	Trusted   bool     // contract assumed at call sites but body not verified (must be listed)
	Inline    bool     // force inlining even though contract exists
	Owns      []*SExpr // channels whose closedness this function owns
	Holds     []string // lock keys that are held on entry (…Locked functions)
	File      string
	Line      int
}

type LockSpec struct {
	Closes   []string // channel classes whose members are closed only under this lock
	Key      string   // client.RpcMultiplexer.mutex
	Guards   []string // field names of the same struct that are havoced on Lock (scalars) / maps (contents)
	Inv      []*Clause
	Teardown bool
}

type FieldSpec struct {
	Key  string // client.RpcMultiplexer.handlers
	Labels []string
	Disc string // guarded_by <lockpath> | atomic | init_only | unshared | used_only_in <funcs>
	Arg  string
	Args []string
	Lock     string   // guarded_by: lock path relative to the struct; init_only contents=<lock>: lock guarding a map's contents
	Inits    []string // by=<func>: functions allowed to write an init_only field (run before the object is shared)
	Readers  []string // readers=<func>: functions that may read a guarded field without the lock (the single writer)
}

type ChanSpec struct {
	Origin string // heap array origin e.g. H.goat.handler.writeChan  or M.<maptype>...
	Kind   string // never_closed | owner_closed | close_guarded_by
	Arg    string
	MsgInv *Clause // message invariant with variables m (message) and ch (channel)
}

type LemmaSpec struct {
	Steps    []*SExpr
	StepText []string
	Name   string
	Labels []string
	Vars   [][2]string // name, sort
	Hyps   []*SExpr
	Goal   *SExpr
	Text   string
	File   string
	Line   int
}

type Specs struct {
	Funcs     map[string]*FuncSpec
	Locks     map[string]*LockSpec
	Fields    map[string]*FieldSpec
	Chans     map[string]*ChanSpec
	FnFields    map[string]string // heap origin of a function-typed field -> the only function ever stored there
	ChanClassOf map[string]string // heap origin -> channel class of every non-nil channel stored there
	ObjInvs   map[string][]*Clause
	OnDelete  map[string][]*Clause // map field key (pkg.Type.field) -> what must hold of an entry when it is deleted
	FieldDefaults map[string]*FieldSpec
	Classes   map[string]*ChanClass
	ClassList []*ChanClass
	Lemmas    []*LemmaSpec
	Files     []string
	NClauses  int
}

var labelRe = regexp.MustCompile(`^([a-z_-]+)(?:\[([^\]]*)\])?\s*(.*)$`)

func readSpecs(dir string) (*Specs, error) {
	sp := &Specs{Funcs: map[string]*FuncSpec{}, Locks: map[string]*LockSpec{}, Fields: map[string]*FieldSpec{}, Chans: map[string]*ChanSpec{}, Classes: map[string]*ChanClass{}, ObjInvs: map[string][]*Clause{}, OnDelete: map[string][]*Clause{}, FieldDefaults: map[string]*FieldSpec{}}
	// built-in class 1 "ctx.done": the Done channel of a context (prelude: ch_class(ctx_donech c) = 1).
	// Nothing is ever sent on it, so a receive from it succeeds only once it is closed.
	if fe, err := parseSpecExpr("false"); err == nil {
		cc := &ChanClass{Name: "ctx.done", ID: 1, MsgInv: &Clause{Kind: "msginv", Expr: fe, Text: "false", Func: "chanclass ctx.done"}}
		sp.Classes[cc.Name] = cc
		sp.ClassList = append(sp.ClassList, cc)
	}
	var files []string
	filepath.Walk(dir, func(path string, info os.FileInfo, err error) error {
		if err != nil {
			return nil
		}
		if info.IsDir() && (info.Name() == ".git" || info.Name() == "gen") {
			return filepath.SkipDir
		}
		if strings.HasSuffix(path, "contracts_verif.go") {
			files = append(files, path)
		}
		return nil
	})
	sort.Strings(files)
	sp.Files = files
	for _, f := range files {
		if err := sp.readFile(f); err != nil {
			return nil, err
		}
	}
	return sp, nil
}

func (sp *Specs) readFile(path string) error {
	data, err := os.ReadFile(path)
	if err != nil {
		return err
	}
	lines := strings.Split(string(data), "\n")
	// join continuation lines: a //@ line starting with whitespace+"|" continues the previous one
	type ln struct {
		n int
		s string
	}
	var ls []ln
	for i, l := range lines {
		t := strings.TrimSpace(l)
		if !strings.HasPrefix(t, "//@") {
			continue
		}
		body := strings.TrimSpace(strings.TrimPrefix(t, "//@"))
		if body == "" {
			continue
		}
		if strings.HasPrefix(body, "|") && len(ls) > 0 {
			ls[len(ls)-1].s += " " + strings.TrimSpace(body[1:])
			continue
		}
		ls = append(ls, ln{i + 1, body})
	}
	var cur *FuncSpec
	var curLock *LockSpec
	var curLemma *LemmaSpec
	for _, l := range ls {
		fail := func(format string, a ...interface{}) error {
			return fmt.Errorf("%s:%d: %s", path, l.n, fmt.Sprintf(format, a...))
		}
		m := labelRe.FindStringSubmatch(l.s)
		if m == nil {
			return fail("cannot parse %q", l.s)
		}
		kw, labs, rest := m[1], m[2], strings.TrimSpace(m[3])
		var labels []string
		for _, x := range strings.FieldsFunc(labs, func(r rune) bool { return r == ' ' || r == ',' }) {
			labels = append(labels, x)
		}
		mk := func(kind, text string) (*Clause, error) {
			e, err := parseSpecExpr(text)
			if err != nil {
				return nil, fail("%v in %q", err, text)
			}
			sp.NClauses++
			c := &Clause{Kind: kind, Labels: labels, Expr: e, Text: text, File: path, Line: l.n}
			if cur != nil {
				c.Func = cur.Key
			}
			return c, nil
		}
		switch kw {
		case "func":
			cur = &FuncSpec{Key: rest, LoopInv: map[int][]*Clause{}, File: path, Line: l.n}
			if _, dup := sp.Funcs[rest]; dup {
				return fail("duplicate func spec %s", rest)
			}
			sp.Funcs[rest] = cur
			curLock, curLemma = nil, nil
		case "defines":
			if cur == nil {
				return fail("defines outside func")
			}
			c, err := mk("defines", rest)
			if err != nil {
				return err
			}
			cur.Defines = append(cur.Defines, c)
		case "captures":
			if cur == nil {
				return fail("captures outside func")
			}
			c, err := mk("captures", rest)
			if err != nil {
				return err
			}
			cur.Captures = append(cur.Captures, c)
		case "step":
			// lemma proof step: proved from the hypotheses and earlier steps, then assumed
			if curLemma == nil {
				return fail("step outside lemma")
			}
			e, err := parseSpecExpr(rest)
			if err != nil {
				return fail("%v", err)
			}
			curLemma.Steps = append(curLemma.Steps, e)
			curLemma.StepText = append(curLemma.StepText, rest)
		case "requires", "ensures":
			if curLemma != nil {
				e, err := parseSpecExpr(rest)
				if err != nil {
					return fail("%v", err)
				}
				if kw == "requires" {
					curLemma.Hyps = append(curLemma.Hyps, e)
				} else {
					curLemma.Goal = e
					curLemma.Text = rest
				}
				continue
			}
			if cur == nil {
				return fail("%s outside func", kw)
			}
			c, err := mk(kw, rest)
			if err != nil {
				return err
			}
			if kw == "requires" {
				cur.Requires = append(cur.Requires, c)
			} else {
				cur.Ensures = append(cur.Ensures, c)
			}
		case "loop":
			// loop N invariant[labels] expr
			f := strings.Fields(rest)
			if cur == nil || len(f) < 3 {
				return fail("bad loop clause")
			}
			n, err := strconv.Atoi(f[0])
			if err != nil {
				return fail("bad loop ordinal")
			}
			r2 := strings.TrimSpace(strings.TrimPrefix(rest, f[0]))
			m2 := labelRe.FindStringSubmatch(r2)
			if m2 == nil || m2[1] != "invariant" {
				return fail("expected 'invariant'")
			}
			labels = nil
			for _, x := range strings.FieldsFunc(m2[2], func(r rune) bool { return r == ' ' || r == ',' }) {
				labels = append(labels, x)
			}
			c, err := mk("invariant", strings.TrimSpace(m2[3]))
			if err != nil {
				return err
			}
			c.Loop = n
			cur.LoopInv[n] = append(cur.LoopInv[n], c)
		case "atcall":
			// atcall[labels] <calleeSubstr>#k : expr
			i := strings.Index(rest, " : ")
			if cur == nil || i < 0 {
				return fail("bad atcall (expected '<callee> : <expr>')")
			}
			site := strings.TrimSpace(rest[:i])
			c, err := mk("atcall", strings.TrimSpace(rest[i+3:]))
			if err != nil {
				return err
			}
			c.Ord = -1
			if j := strings.LastIndex(site, "#"); j >= 0 {
				c.Ord, _ = strconv.Atoi(site[j+1:])
				site = site[:j]
			}
			c.Callee = site
			cur.AtCall = append(cur.AtCall, c)
		case "nopanic":
			if cur == nil {
				return fail("nopanic outside func")
			}
			cur.NoPanic = &Clause{Kind: "nopanic", Labels: labels, File: path, Line: l.n, Func: cur.Key}
		case "nonblocking":
			if cur == nil {
				return fail("nonblocking outside func")
			}
			cur.NonBlock = &Clause{Kind: "nonblocking", Labels: labels, File: path, Line: l.n, Func: cur.Key}
		case "ctxaware":
			if cur == nil {
				return fail("ctxaware outside func")
			}
			cur.CtxAware = &Clause{Kind: "ctxaware", Labels: labels, File: path, Line: l.n, Func: cur.Key}
			if strings.TrimSpace(rest) != "" {
				// ctxaware <expr>: the escape of every blocking operation is the Done channel of that context
				e, err := parseSpecExpr(rest)
				if err != nil {
					return fail("%v", err)
				}
				cur.CtxAware.Expr = e
				cur.CtxAware.Text = rest
			}
		case "released_by":
			// released_by[labels] <chan expr>: a blocking select executed while a teardown lock is held is
			// acceptable when it has a receive alternative on this channel (a signal that the party which
			// will wait for the lock fires BEFORE it waits - that half is a separate at-call obligation)
			if cur == nil {
				return fail("released_by outside func")
			}
			e, err := parseSpecExpr(rest)
			if err != nil {
				return fail("%v", err)
			}
			cur.ReleasedBy = append(cur.ReleasedBy, &Clause{Kind: "released_by", Labels: labels, File: path, Line: l.n, Func: cur.Key, Expr: e, Text: rest})
		case "escape":
			// escape[labels] <chan expr>: every blocking channel operation has a receive alternative on that channel
			if cur == nil {
				return fail("escape outside func")
			}
			e, err := parseSpecExpr(rest)
			if err != nil {
				return fail("%v", err)
			}
			cur.Escape = append(cur.Escape, &Clause{Kind: "escape", Labels: labels, File: path, Line: l.n, Func: cur.Key, Expr: e, Text: rest})
		case "modifies":
			if cur == nil {
				return fail("modifies outside func")
			}
			cur.HasMod = true
			for _, x := range strings.FieldsFunc(rest, func(r rune) bool { return r == ' ' || r == ',' }) {
				cur.Modifies = append(cur.Modifies, x)
			}
		case "pure":
			cur.Pure = true
			cur.HasMod = true
		case "trusted":
			cur.Trusted = true
		case "trust_result_objinv":
			// the object invariant of the result is assumed, not proved, for this function (reason in rest)
			cur.TrustResult = strings.TrimSpace(rest)
			if cur.TrustResult == "" {
				return fail("trust_result_objinv needs a reason")
			}
		case "dead_returns":
			// dead_returns N -- reason: N return statements of this function are knowingly unreachable
			f := strings.Fields(rest)
			if cur == nil || len(f) < 1 {
				return fail("dead_returns N -- reason")
			}
			cur.DeadReturns, _ = strconv.Atoi(f[0])
		case "once":
			// a closure handed to (*sync.Once).Do: it runs at most once
			cur.Once = true
		case "inline":
			cur.Inline = true
		case "holds":
			cur.Holds = append(cur.Holds, strings.Fields(rest)...)
		case "owns":
			e, err := parseSpecExpr(rest)
			if err != nil {
				return fail("%v", err)
			}
			cur.Owns = append(cur.Owns, e)
		case "makechan":
			// makechan N tag expr
			f := strings.Fields(rest)
			if cur == nil || len(f) < 3 || f[1] != "tag" {
				return fail("bad makechan")
			}
			n, _ := strconv.Atoi(f[0])
			tagText := strings.TrimSpace(strings.SplitN(rest, " tag ", 2)[1])
			own := false
			if strings.HasSuffix(tagText, " own") {
				// closed only by the function that makes it (and its in-place closures): its closedness is
				// stable for this activation (the locations it is stored in must forbid closing: owner_closed -)
				own = true
				tagText = strings.TrimSpace(strings.TrimSuffix(tagText, " own"))
			}
			nc := false
			if strings.HasSuffix(tagText, " nc") {
				// this channel is never closed by anyone (proved at every close site)
				nc = true
				tagText = strings.TrimSpace(strings.TrimSuffix(tagText, " nc"))
			}
			class := ""
			if i := strings.Index(tagText, " class "); i >= 0 {
				class = strings.TrimSpace(tagText[i+7:])
				tagText = strings.TrimSpace(tagText[:i])
			}
			e, err := parseSpecExpr(tagText)
			if err != nil {
				return fail("%v", err)
			}
			cur.MakeChans = append(cur.MakeChans, GhostMakeChan{n, e, class, nc, own})
		case "lock":
			// lock <Type.field> [teardown] guards a, b
			f := strings.Fields(rest)
			if len(f) < 1 {
				return fail("bad lock")
			}
			curLock = &LockSpec{Key: f[0]}
			sp.Locks[f[0]] = curLock
			cur, curLemma = nil, nil
			for i := 1; i < len(f); i++ {
				switch f[i] {
				case "teardown":
					curLock.Teardown = true
				case "guards":
					for j, g := range f[i+1:] {
						if g == "closes" {
							// ... closes <class>, ...: channels of these classes are closed only while the lock is held
							for _, c := range f[i+1+j+1:] {
								curLock.Closes = append(curLock.Closes, strings.Trim(c, ","))
							}
							break
						}
						curLock.Guards = append(curLock.Guards, strings.Trim(g, ","))
					}
					i = len(f)
				}
			}
		case "inv":
			if curLock == nil {
				return fail("inv outside lock")
			}
			c, err := mk("lockinv", rest)
			if err != nil {
				return err
			}
			c.Func = "lock " + curLock.Key
			curLock.Inv = append(curLock.Inv, c)
		case "field":
			f := strings.Fields(rest)
			if len(f) < 2 {
				return fail("bad field")
			}
			fs := &FieldSpec{Key: f[0], Disc: f[1], Labels: labels}
			for _, a := range f[2:] {
				switch {
				case strings.HasPrefix(a, "contents="):
					fs.Lock = strings.TrimPrefix(a, "contents=")
				case strings.HasPrefix(a, "by="):
					fs.Inits = append(fs.Inits, strings.Split(strings.TrimPrefix(a, "by="), ",")...)
				case strings.HasPrefix(a, "readers="):
					fs.Readers = append(fs.Readers, strings.Split(strings.TrimPrefix(a, "readers="), ",")...)
				default:
					fs.Args = append(fs.Args, a)
				}
			}
			if len(fs.Args) > 0 {
				fs.Arg = fs.Args[0]
			}
			if fs.Disc == "guarded_by" {
				fs.Lock = fs.Arg
			}
			sp.Fields[f[0]] = fs
		case "fielddefault":
			// fielddefault <Type> <discipline>: every field of the struct without its own declaration
			f := strings.Fields(rest)
			if len(f) < 2 {
				return fail("bad fielddefault")
			}
			sp.FieldDefaults[f[0]] = &FieldSpec{Key: f[0] + ".*", Disc: f[1], Labels: labels}
		case "chan":
			// chan <origin> never_closed | owner_closed <func> | close_guarded_by <lock> [msg: expr]
			head := rest
			var msg string
			if i := strings.Index(rest, " msg:"); i >= 0 {
				head, msg = rest[:i], strings.TrimSpace(rest[i+5:])
			}
			f := strings.Fields(head)
			if len(f) < 2 {
				return fail("bad chan")
			}
			if f[1] == "class" {
				if len(f) < 3 {
					return fail("chan <origin> class <name>")
				}
				if sp.ChanClassOf == nil {
					sp.ChanClassOf = map[string]string{}
				}
				sp.ChanClassOf[f[0]] = f[2]
				continue
			}
			cs := &ChanSpec{Origin: f[0], Kind: f[1]}
			if len(f) > 2 {
				cs.Arg = f[2]
			}
			if msg != "" {
				c, err := mk("msginv", msg)
				if err != nil {
					return err
				}
				c.Func = "chan " + cs.Origin
				cs.MsgInv = c
			}
			sp.Chans[f[0]] = cs
		case "objinv":
			// objinv[labels] <Type> : expr   (self = pointer to the object)
			i := strings.Index(rest, ":")
			if i < 0 {
				return fail("objinv needs ':'")
			}
			tn := strings.TrimSpace(rest[:i])
			c, err := mk("objinv", strings.TrimSpace(rest[i+1:]))
			if err != nil {
				return err
			}
			c.Func = "objinv " + tn
			sp.ObjInvs[tn] = append(sp.ObjInvs[tn], c)
		case "ondelete":
			// ondelete[labels] <pkg.Type.field> : expr   (key, entry = the map's value for key before the delete)
			i := strings.Index(rest, ":")
			if i < 0 {
				return fail("ondelete needs ':'")
			}
			fk := strings.TrimSpace(rest[:i])
			c, err := mk("ondelete", strings.TrimSpace(rest[i+1:]))
			if err != nil {
				return err
			}
			c.Func = "ondelete " + fk
			sp.OnDelete[fk] = append(sp.OnDelete[fk], c)
		case "fnfield":
			// fnfield <origin> is <funcKey>
			f := strings.Fields(rest)
			if len(f) != 3 || f[1] != "is" {
				return fail("fnfield <origin> is <function>")
			}
			if sp.FnFields == nil {
				sp.FnFields = map[string]string{}
			}
			sp.FnFields[f[0]] = f[2]
		case "chanclass":
			// chanclass <name> msg: expr
			i := strings.Index(rest, " msg:")
			if i < 0 {
				return fail("chanclass needs msg:")
			}
			name := strings.TrimSpace(rest[:i])
			cc := &ChanClass{Name: name, ID: len(sp.ClassList) + 1}
			c, err := mk("msginv", strings.TrimSpace(rest[i+5:]))
			if err != nil {
				return err
			}
			c.Func = "chanclass " + name
			cc.MsgInv = c
			sp.Classes[name] = cc
			sp.ClassList = append(sp.ClassList, cc)
		case "lemma":
			// lemma[labels] name : forall (x Sort, y Sort)
			curLemma = &LemmaSpec{Labels: labels, File: path, Line: l.n}
			i := strings.Index(rest, ":")
			if i < 0 {
				curLemma.Name = rest
			} else {
				curLemma.Name = strings.TrimSpace(rest[:i])
				for _, v := range strings.Split(rest[i+1:], ",") {
					f := strings.Fields(v)
					if len(f) == 2 {
						curLemma.Vars = append(curLemma.Vars, [2]string{f[0], f[1]})
					}
				}
			}
			sp.Lemmas = append(sp.Lemmas, curLemma)
			cur, curLock = nil, nil
		default:
			return fail("unknown keyword %q", kw)
		}
	}
	return nil
}
