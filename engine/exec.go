package main

import (
	"go/ast"
	"fmt"
	"os"
	"go/constant"
	"go/token"
	"go/types"
	"math/big"
	"sort"
	"strings"

	"golang.org/x/tools/go/ssa"
)

type Obligation struct {
	ID      int
	Func    string
	Name    string // stable name: <func>/<label> or <func>#<kind>@<what>#k
	Kind    string
	Labels  []string
	Goal    string
	PC      []string
	Decls   []string
	Trace   []string
	Pos     string
	Clause  *Clause
	Trivial bool
	// result
	Status string // unsat (discharged) | sat | unknown | trivial
	Solver string
	Ms     int64
	Model  string
	Script string
	Probes map[string]Val
	Hunted bool // Model comes from the quantifier-free weakening (candidate only)
}

type Cont func(st *State, fr *Frame, ret Val)

type Exec struct {
	lockEdges map[string]map[string]string // lock acquired while another is held: from -> to -> function
	activeClass map[int]bool // channel classes whose message invariant is assumed (and proved) in this run
	inRun map[string]bool // functions verified in this run (nil = all)
	prog         *Program
	specs        *Specs
	nfresh       int
	nalloc       int
	sorts        map[string]string
	heapInit     map[string]string
	heapSort     map[string]string
	cntInit      map[string]string
	obls         []*Obligation
	notes        map[string]bool // unsupported / abstraction notes
	used         map[string]bool // externals / inlined / assumed contracts used
	curKey       string
	paths        int
	maxPaths     int
	tids         map[string]int
	ordinals     map[string]int // per (func,kind,what) ordinal counters are per path; we key by instruction
	instrOrd     map[ssa.Instruction]int
	mode         string // "verify" (full) or "sweep" (discipline only)
	wantProp     string
	pathEnds     int
	covers       map[string]bool // clause reached with this antecedent etc.
	inlineDepth  int
	topFrame     *Frame
	propFilter   func(labels []string) bool
	known        map[string]Val
	globals      map[string]bool
	sliceVals    map[string][]Val
	cellVals     map[string]Val
	typeCache    map[string]types.Type
	modCache     map[*ssa.Function]*modSet
	disciplineOn bool
	uncovered    map[string]bool
	closeSites   map[string]bool
	openFindings map[string]bool
	specErrs     int
	retCount     map[string]int
	probes       map[string]map[string]Val
	countersRegistered bool
	ancestors map[string][]string
	curState *State
	coverSeen map[string]bool
}

func newExec(p *Program, sp *Specs) *Exec {
	return &Exec{prog: p, specs: sp, sorts: map[string]string{}, heapInit: map[string]string{},
		heapSort: map[string]string{}, cntInit: map[string]string{}, notes: map[string]bool{},
		used: map[string]bool{}, maxPaths: 6000, tids: map[string]int{}, instrOrd: map[ssa.Instruction]int{},
		covers: map[string]bool{}, known: map[string]Val{}, globals: map[string]bool{}, sliceVals: map[string][]Val{},
		cellVals: map[string]Val{}, typeCache: map[string]types.Type{}, modCache: map[*ssa.Function]*modSet{},
		uncovered: map[string]bool{}, closeSites: map[string]bool{}, retCount: map[string]int{}, probes: map[string]map[string]Val{}, ancestors: map[string][]string{}, coverSeen: map[string]bool{}}
}

func (ex *Exec) unsupported(format string, a ...interface{}) {
	msg := fmt.Sprintf(format, a...)
	ex.notes["UNSUPPORTED "+ex.curKey+": "+msg] = true
	// a function under contract that leaves the verified subset loses its proof: this is reported
	// as a failed obligation (it never happens on the unchanged tree)
	if ex.topFrame != nil && ex.topFrame.spec != nil && ex.curState != nil {
		labels := ex.allLabels(ex.topFrame.spec)
		ex.oblige(ex.curState, "subset", ex.curKey+"#outside-verified-subset@"+smtSym(msg), labels, "false", nil, "")
	}
}

func (ex *Exec) allLabels(sp *FuncSpec) []string {
	seen := map[string]bool{}
	var out []string
	add := func(ls []string) {
		for _, l := range ls {
			if !seen[l] {
				seen[l] = true
				out = append(out, l)
			}
		}
	}
	for _, cs := range [][]*Clause{sp.Requires, sp.Ensures, sp.AtCall} {
		for _, c := range cs {
			add(c.Labels)
		}
	}
	for _, cs := range sp.LoopInv {
		for _, c := range cs {
			add(c.Labels)
		}
	}
	if sp.NoPanic != nil {
		add(sp.NoPanic.Labels)
	}
	return out
}

func (ex *Exec) use(what string) { ex.used[what] = true }

func (ex *Exec) tid(t types.Type) int {
	k := types.TypeString(t, nil)
	if n, ok := ex.tids[k]; ok {
		return n
	}
	n := len(ex.tids) + 1
	ex.tids[k] = n
	return n
}

// ---------- value construction ----------

func (ex *Exec) mkVal(t types.Type, term string) Val {
	v := Val{T: term, Typ: t, S: sortOf(t)}
	if t == nil {
		v.S = "Int"
		return v
	}
	if el := derefType(t); el != nil {
		if structOf(el) != nil {
			v.Root = rootName(el)
		} else if _, isArr := types.Unalias(el).Underlying().(*types.Array); isArr {
			v.Root = "array"
		} else {
			v.Arr = "cell." + sortOf(el)
			if sortOf(el) == "" {
				v.Arr = "cell.Int"
			}
		}
	}
	return v
}

func isRefLike(t types.Type) bool {
	if t == nil {
		return false
	}
	switch types.Unalias(t).Underlying().(type) {
	case *types.Pointer, *types.Chan, *types.Map, *types.Signature:
		return true
	}
	return false
}

// symVal creates an unconstrained symbolic value of type t.
func (ex *Exec) symVal(st *State, t types.Type, prefix string) Val {
	if s := structOf(t); s != nil {
		v := Val{Typ: t}
		v.Elems = make([]Val, s.NumFields())
		for i := 0; i < s.NumFields(); i++ {
			v.Elems[i] = ex.symVal(st, s.Field(i).Type(), prefix+"."+s.Field(i).Name())
		}
		return v
	}
	if tup, ok := t.(*types.Tuple); ok {
		v := Val{Typ: t}
		v.Elems = make([]Val, tup.Len())
		for i := 0; i < tup.Len(); i++ {
			v.Elems[i] = ex.symVal(st, tup.At(i).Type(), fmt.Sprintf("%s.%d", prefix, i))
		}
		return v
	}
	so := sortOf(t)
	if so == "" {
		so = "Int"
	}
	c := st.fresh(prefix, so)
	v := ex.mkVal(t, c)
	ex.typeFacts(st, v)
	return v
}

// typeFacts assumes what is true of every value of the static type.
func (ex *Exec) typeFacts(st *State, v Val) {
	if v.S == "Int" && v.Typ != nil {
		if _, _, ok := intBits(v.Typ); ok {
			st.assume(rangeFact(v.Typ, v.T))
		} else if isRefLike(v.Typ) {
			st.assume("(> " + v.T + " " + smtInt(int64(-(ex.nalloc+1))) + ")")
		} else if sl, ok := types.Unalias(v.Typ).Underlying().(*types.Slice); ok {
			st.assume("(and (>= (slen " + v.T + ") 0) (< (slen " + v.T + ") 4611686018427387904))")
			if isRefLike(sl.Elem()) {
				// no element can be an object this path allocates later
				st.assume("(forall ((j Int)) (! (> (sat_i " + v.T + " j) " + smtInt(int64(-(ex.nalloc+1))) + ") :pattern ((sat_i " + v.T + " j))))")
			}
		}
	}
	if v.S == "String" {
		// Go strings hold bytes and are shorter than 2^62
		st.assume("(< (str.len " + v.T + ") 4611686018427387904)")
		st.assume("(byteString " + v.T + ")")
	}
}

func (ex *Exec) zeroVal(t types.Type) Val {
	if s := structOf(t); s != nil {
		v := Val{Typ: t}
		v.Elems = make([]Val, s.NumFields())
		for i := 0; i < s.NumFields(); i++ {
			v.Elems[i] = ex.zeroVal(s.Field(i).Type())
		}
		return v
	}
	return ex.mkVal(t, zeroTerm(sortOf(t)))
}

func (ex *Exec) allocRef() string {
	ex.nalloc++
	return smtInt(int64(-ex.nalloc))
}

// ---------- pointers / heap access ----------

func skipField(f *types.Var) bool {
	// protobuf runtime bookkeeping fields are irrelevant to every contract
	n := f.Name()
	if n == "state" || n == "sizeCache" || n == "unknownFields" {
		return true
	}
	return false
}

func (ex *Exec) fieldPtr(p Val, i int) Val {
	st := structOf(derefType(p.Typ))
	f := st.Field(i)
	ft := f.Type()
	out := Val{T: p.T, Typ: types.NewPointer(ft), S: "Int"}
	if structOf(ft) != nil {
		out.Root = p.Root
		out.Prefix = p.Prefix + f.Name() + "."
	} else if _, isArr := types.Unalias(ft).Underlying().(*types.Array); isArr {
		out.Root = "array"
		out.Prefix = p.Root + "." + p.Prefix + f.Name()
	} else {
		out.Arr = "H." + p.Root + "." + p.Prefix + f.Name()
	}
	return out
}

func (ex *Exec) load(st *State, p Val) Val {
	el := derefType(p.Typ)
	if el == nil {
		ex.unsupported("load through non-pointer %v", p.Typ)
		return ex.symVal(st, types.Typ[types.Int], "bad")
	}
	if s := structOf(el); s != nil && p.Arr == "" {
		v := Val{Typ: el}
		v.Elems = make([]Val, s.NumFields())
		for i := 0; i < s.NumFields(); i++ {
			if skipField(s.Field(i)) {
				v.Elems[i] = ex.zeroVal(s.Field(i).Type())
				continue
			}
			v.Elems[i] = ex.load(st, ex.fieldPtr(p, i))
		}
		return v
	}
	if p.Arr == "" {
		ex.unsupported("load through pointer without array %v", p.Typ)
		return ex.symVal(st, el, "bad")
	}
	if strings.HasPrefix(p.Arr, "@slice:") {
		// element of a value-semantic slice: p.T is the slice, p.Prefix the index
		so := strings.TrimPrefix(p.Arr, "@slice:")
		if structOf(el) != nil {
			ex.unsupported("slice of struct values")
			return ex.symVal(st, el, "bad")
		}
		v := ex.mkVal(el, "("+satFn(so)+" "+p.T+" "+p.Prefix+")")
		if isRefLike(el) {
			v.T = st.bind("elem", "Int", v.T)
			st.assume("(> " + v.T + " " + smtInt(int64(-(ex.nalloc+1))) + ")")
		}
		return v
	}
	so := sortOf(el)
	if so == "" {
		so = "Int"
	}
	if cv, ok := st.cells[p.Arr+"@"+p.T]; ok {
		cv.Typ = el
		if cv.Origin == "" {
			cv.Origin = p.Arr
			cv.OriginRef = p.T
		}
		return cv
	}
	t := st.read(p.Arr, so, p.T)
	v := ex.mkVal(el, t)
	v.Origin = p.Arr
	v.OriginRef = p.T
	ex.chanClassLoad(st, p.Arr, el, t)
	if rf := rangeFact(el, t); rf != "true" {
		st.assume(rf) // an integer variable holds a value of its type
	}
	if strings.HasPrefix(p.Arr, "global.") {
		ex.globalFacts(st, p.T, t, el)
	}
	if sl, ok := types.Unalias(el).Underlying().(*types.Slice); ok {
		if pe := derefType(sl.Elem()); pe != nil && strings.HasPrefix(typeKey(pe), "goatorepo.") {
			// A-proto: repeated message fields never contain nil elements
			t2 := st.bind("ld", "Int", t)
			v.T = t2
			st.assume("(forall ((j Int)) (! (=> (and (<= 0 j) (< j (slen " + t2 + "))) (distinct (sat_i " + t2 + " j) 0)) :pattern ((sat_i " + t2 + " j))))")
			ex.use("assumed: A-proto repeated message fields of envelopes contain no nil elements")
		}
	}
	if v.S == "Int" && (isRefLike(el)) {
		// cannot be an object allocated later on this path
		t2 := st.bind("ld", "Int", t)
		v.T = t2
		st.assume("(> " + t2 + " " + smtInt(int64(-(ex.nalloc+1))) + ")")
	}
	return v
}

func (ex *Exec) store(st *State, p Val, v Val) {
	el := derefType(p.Typ)
	if s := structOf(el); s != nil && p.Arr == "" {
		if len(v.Elems) != s.NumFields() {
			ex.unsupported("struct store arity mismatch %v", el)
			return
		}
		for i := 0; i < s.NumFields(); i++ {
			if skipField(s.Field(i)) {
				continue
			}
			ex.store(st, ex.fieldPtr(p, i), v.Elems[i])
		}
		return
	}
	if p.Arr == "" {
		ex.unsupported("store through pointer without array %v", p.Typ)
		return
	}
	if strings.HasPrefix(p.Arr, "@slice:") {
		ex.unsupported("store into slice element (value-semantic slices are read-only)")
		return
	}
	if v.isComposite() {
		ex.unsupported("composite store into scalar cell %s", p.Arr)
		return
	}
	if (v.Arr != "" && !strings.HasPrefix(v.Arr, "cell.")) || v.Prefix != "" {
		ex.unsupported("interior pointer stored into heap (%s)", p.Arr)
	}
	so := sortOf(el)
	if so == "" {
		so = "Int"
	}
	ex.chanClassStore(st, p.Arr, el, v.T)
	if want := ex.specs.FnFields[p.Arr]; want != "" && v.T != "0" {
		// the field only ever holds the declared function (whose contract stands for calls through it)
		goal := "false"
		if v.Fn != nil && ex.prog.Keys[v.Fn] == want {
			goal = "true"
		}
		ob := ex.oblige(st, "fnfield", fmt.Sprintf("%s#fnfield@%s", ex.curKey, smtSym(p.Arr)), []string{"*"}, goal, nil, "")
		if ob != nil && goal == "true" {
			ob.Trivial = false
		}
	}
	st.write(p.Arr, so, p.T, v.T)
	if strings.HasPrefix(p.Arr, "arr.") {
		ex.cellVals[p.Arr+"@"+p.T] = v
	}
	if isFreshRef(p.T) && !strings.HasPrefix(p.Arr, "@") {
		if st.cells == nil {
			st.cells = map[string]Val{}
		}
		st.cells[p.Arr+"@"+p.T] = v
	}
	if v.Fn != nil || v.Dyn != nil {
		// remember statically-known function / dynamic values stored in cells of this path
		ex.remember(st, p.Arr, p.T, v)
	}
}

// remember statically-known function / dynamic values by their term
func (ex *Exec) remember(st *State, arr, ref string, v Val) {
	ex.known[v.T] = v
}

func (ex *Exec) zeroObject(st *State, p Val) {
	el := derefType(p.Typ)
	if el != nil && typeKey(el) == "sync.WaitGroup" {
		st.write("wg."+lockKeyOf(p), "Int", p.T, "0")
	}
	if s := structOf(el); s != nil && p.Arr == "" {
		for i := 0; i < s.NumFields(); i++ {
			if skipField(s.Field(i)) {
				continue
			}
			ex.zeroObject(st, ex.fieldPtr(p, i))
		}
		return
	}
	if p.Arr == "" {
		return
	}
	so := sortOf(el)
	if so == "" {
		so = "Int"
	}
	st.write(p.Arr, so, p.T, zeroTerm(so))
}

// ---------- obligations ----------

func (ex *Exec) oblige(st *State, kind, name string, labels []string, goal string, cl *Clause, pos string) *Obligation {
	// an unlabelled contract clause is assumed wherever it applies, so it is proved in every
	// property's run; labelled ones only in the runs of the properties they name
	if ex.propFilter != nil && !(cl != nil && len(labels) == 0) && !ex.propFilter(labels) {
		return nil
	}
	ob := &Obligation{ID: len(ex.obls), Func: ex.curKey, Name: name, Kind: kind, Labels: labels, Goal: goal,
		PC: st.pc[:len(st.pc):len(st.pc)], Decls: st.decls[:len(st.decls):len(st.decls)],
		Trace: st.trace[:len(st.trace):len(st.trace)], Pos: pos, Clause: cl}
	if goal == "true" {
		ob.Trivial = true
	}
	ex.obls = append(ex.obls, ob)
	return ob
}

// attachProbes evaluates the replay driver's probes at the point where the obligation arises.
func (ex *Exec) attachProbes(st *State, fr *Frame, ob *Obligation) {
	if ob == nil || ob.Trivial || fr == nil {
		return
	}
	d := tmplDrivers[ex.curKey]
	if d == nil || fr.key != ex.curKey {
		return
	}
	m := map[string]Val{}
	for _, p := range d.Probes {
		e, err := parseSpecExpr(p[1])
		if err != nil {
			continue
		}
		ev := &evalCtx{ex: ex, st: st, fr: fr}
		v := ev.eval(e)
		if len(ev.err) == 0 && !v.isComposite() {
			m[p[0]] = v
		}
	}
	ob.Probes = m
}

// safety obligations are generated only in functions marked nopanic
var sweepClause = &Clause{Kind: "nopanic", Labels: []string{"*"}, Text: "zero-annotation no-panic sweep"}

func (ex *Exec) safety(st *State, fr *Frame, instr ssa.Instruction, kind, what, goal string) {
	sp := ex.topFrame.spec
	if os.Getenv("GOATVC_SWEEP") != "" && (sp == nil || sp.NoPanic == nil) {
		// diagnostic mode: implicit safety obligations in every function, contract or not
		if goal == "true" {
			return
		}
		name := fmt.Sprintf("%s#%s@%s", ex.curKey, kind, what)
		if instr != nil {
			name += fmt.Sprintf("#%d", ex.ordinalOf(fr, instr, kind))
		}
		ex.oblige(st, kind, name, sweepClause.Labels, goal, sweepClause, ex.posOf(instr))
		return
	}
	if sp == nil || sp.NoPanic == nil {
		return
	}
	if goal == "true" {
		return
	}
	name := fmt.Sprintf("%s#%s@%s", ex.curKey, kind, what)
	if fr != nil && !fr.top {
		name += "~" + fr.key
	}
	if instr != nil {
		name += fmt.Sprintf("#%d", ex.ordinalOf(fr, instr, kind))
	}
	ob := ex.oblige(st, kind, name, sp.NoPanic.Labels, goal, sp.NoPanic, ex.posOf(instr))
	ex.attachProbes(st, fr, ob)
}

// ordinalOf numbers instructions of the same kind within their function by source order,
// so names are stable under line shifts.
func (ex *Exec) ordinalOf(fr *Frame, instr ssa.Instruction, kind string) int {
	if n, ok := ex.instrOrd[instr]; ok {
		return n
	}
	fn := instr.Parent()
	type pi struct {
		pos token.Pos
		in  ssa.Instruction
		idx int
	}
	var all []pi
	idx := 0
	for _, b := range fn.Blocks {
		for _, in := range b.Instrs {
			if sameKind(in, instr) {
				all = append(all, pi{in.Pos(), in, idx})
				idx++
			}
		}
	}
	sort.SliceStable(all, func(i, j int) bool { return all[i].pos < all[j].pos })
	for i, p := range all {
		ex.instrOrd[p.in] = i
	}
	return ex.instrOrd[instr]
}

func sameKind(a, b ssa.Instruction) bool {
	return fmt.Sprintf("%T", a) == fmt.Sprintf("%T", b)
}

func (ex *Exec) posOf(instr ssa.Instruction) string {
	if instr == nil {
		return ""
	}
	p := instr.Pos()
	if !p.IsValid() {
		return ""
	}
	pp := ex.prog.Prog.Fset.Position(p)
	return fmt.Sprintf("%s:%d", strings.TrimPrefix(pp.Filename, ex.prog.Dir+"/"), pp.Line)
}

// ---------- running a function ----------

func (ex *Exec) newFrame(fn *ssa.Function, depth int) *Frame {
	fr := &Frame{fn: fn, key: ex.prog.Keys[fn], vals: map[ssa.Value]Val{}, names: map[string]Val{},
		cut: map[*ssa.BasicBlock]bool{}, depth: depth}
	if fr.key == "" {
		fr.key = fn.String()
	}
	fr.spec = ex.specs.Funcs[fr.key]
	fr.entryAlloc = ex.nalloc
	return fr
}

// callBody executes fn's body with the given arguments, invoking k at every normal return.
func (ex *Exec) callBody(st *State, fn *ssa.Function, args []Val, binds []Val, depth int, top bool, k Cont) *Frame {
	fr := ex.newFrame(fn, depth)
	fr.top = top
	fr.params = args
	fr.binds = binds
	for i, p := range fn.Params {
		if i < len(args) {
			a := args[i]
			fr.vals[p] = a
			fr.names[p.Name()] = a
		}
	}
	for i, fv := range fn.FreeVars {
		if i < len(binds) {
			fr.vals[fv] = binds[i]
			b := binds[i]
			fr.names["&"+fv.Name()] = b
		}
	}
	fr.entryHeap = st.snapshot()
	fr.entryCnt = map[string]string{}
	for k2, v := range st.cnt {
		fr.entryCnt[k2] = v
	}
	if top {
		ex.topFrame = fr
	}
	if len(fn.Blocks) == 0 {
		ex.unsupported("no body for %s", fn)
		return fr
	}
	ex.block(st, fr, fn.Blocks[0], nil, k)
	return fr
}

func (ex *Exec) val(st *State, fr *Frame, v ssa.Value) Val {
	switch x := v.(type) {
	case *ssa.Const:
		return ex.constVal(x)
	case *ssa.Function:
		return Val{T: fmt.Sprint(ex.fnId(x)), S: "Int", Typ: x.Type(), Fn: x}
	case *ssa.Global:
		return ex.globalAddr(x)
	case *ssa.Builtin:
		return Val{T: "0", S: "Int", Typ: x.Type()}
	}
	if r, ok := fr.vals[v]; ok {
		return r
	}
	ex.unsupported("value %s (%T) undefined on path", v.Name(), v)
	r := ex.symVal(st, v.Type(), "undef")
	fr.vals[v] = r
	return r
}

func (ex *Exec) fnId(fn *ssa.Function) int {
	return 1000000 + ex.tid(types.NewPointer(types.Typ[types.Int])) + len(fn.String())*7919%100000 + hashStr(fn.String())%900000
}

func hashStr(s string) int {
	h := 0
	for i := 0; i < len(s); i++ {
		h = (h*131 + int(s[i])) % 1000003
	}
	return h
}

func (ex *Exec) globalAddr(g *ssa.Global) Val {
	// a global is a pointer to a cell; its ref is a distinct positive constant per global
	name := g.Pkg.Pkg.Name() + "." + g.Name()
	el := derefType(g.Type())
	v := Val{T: "g." + smtSym(name), Typ: g.Type(), S: "Int"}
	ex.sorts[v.T] = "Int"
	ex.globals[v.T] = true
	if structOf(el) != nil {
		v.Root = rootName(el)
	} else {
		so := sortOf(el)
		if so == "" {
			so = "Int"
		}
		v.Arr = "global." + so
	}
	return v
}

func (ex *Exec) constVal(c *ssa.Const) Val {
	t := c.Type()
	if c.Value == nil {
		return ex.zeroVal(t)
	}
	switch c.Value.Kind() {
	case constant.Bool:
		if constant.BoolVal(c.Value) {
			return ex.mkVal(t, "true")
		}
		return ex.mkVal(t, "false")
	case constant.String:
		return ex.mkVal(t, smtString(constant.StringVal(c.Value)))
	case constant.Int:
		s := c.Value.ExactString()
		if strings.HasPrefix(s, "-") {
			s = "(- " + s[1:] + ")"
		}
		if sortOf(t) == "Real" {
			s += ".0"
		}
		cv := ex.mkVal(t, s)
		if n, ok := new(big.Int).SetString(c.Value.ExactString(), 10); ok {
			cv.Lo, cv.Hi = n, n
		}
		return cv
	case constant.Float:
		f, _ := constant.Float64Val(c.Value)
		return ex.mkVal(t, fmt.Sprintf("%f", f))
	}
	ex.unsupported("constant %v", c)
	return ex.mkVal(t, "0")
}

// ---------- blocks ----------

func isBackEdge(from, to *ssa.BasicBlock) bool {
	return to.Dominates(from)
}

func loopHeader(b *ssa.BasicBlock) bool {
	for _, p := range b.Preds {
		if isBackEdge(p, b) {
			return true
		}
	}
	return false
}

// loopOrdinal: loop headers of a function ordered by block index (source order).
func loopOrdinal(b *ssa.BasicBlock) int {
	n := 0
	for _, x := range b.Parent().Blocks {
		if x == b {
			return n
		}
		if loopHeader(x) {
			n++
		}
	}
	return n
}

func loopBlocks(h *ssa.BasicBlock) map[*ssa.BasicBlock]bool {
	in := map[*ssa.BasicBlock]bool{h: true}
	var stack []*ssa.BasicBlock
	for _, p := range h.Preds {
		if isBackEdge(p, h) && !in[p] {
			in[p] = true
			stack = append(stack, p)
		}
	}
	for len(stack) > 0 {
		b := stack[len(stack)-1]
		stack = stack[:len(stack)-1]
		for _, p := range b.Preds {
			if !in[p] {
				in[p] = true
				stack = append(stack, p)
			}
		}
	}
	return in
}

func (ex *Exec) block(st *State, fr *Frame, b *ssa.BasicBlock, pred *ssa.BasicBlock, k Cont) {
	if ex.paths > ex.maxPaths {
		ex.notes["PATHCAP "+ex.curKey] = true
		return
	}
	// phis
	predIdx := -1
	for i, p := range b.Preds {
		if p == pred {
			predIdx = i
		}
	}
	var phis []*ssa.Phi
	for _, in := range b.Instrs {
		if ph, ok := in.(*ssa.Phi); ok {
			phis = append(phis, ph)
		} else {
			break
		}
	}
	incoming := make([]Val, len(phis))
	for i, ph := range phis {
		if predIdx >= 0 {
			incoming[i] = ex.val(st, fr, ph.Edges[predIdx])
		}
	}
	if loopHeader(b) {
		ord := loopOrdinal(b)
		var invs []*Clause
		if fr.spec != nil {
			invs = fr.spec.LoopInv[ord]
		}
		if pred != nil && isBackEdge(pred, b) && fr.cut[b] {
			// back edge: prove invariants, end path
			for i, ph := range phis {
				fr.vals[ph] = incoming[i]
				if ph.Comment != "" {
					fr.names[ph.Comment] = incoming[i]
				}
			}
			st.note(fmt.Sprintf("backedge loop %d", ord))
			for _, c := range invs {
				g := ex.evalClause(st, fr, c, nil)
				ex.attachProbes(st, fr, ex.oblige(st, "invariant-preserved", fmt.Sprintf("%s/loop%d.%s.preserved", fr.key, ord, c.name()), c.Labels, g, c, ex.posOfBlock(b)))
			}
			ex.checkHeldBalanced(st, fr, b)
			ex.paths++
			return
		}
		// entry
		for i, ph := range phis {
			fr.vals[ph] = incoming[i]
			if ph.Comment != "" {
				fr.names[ph.Comment] = incoming[i]
			}
		}
		st.note(fmt.Sprintf("enter loop %d", ord))
		dbgNames(fr, "loop-entry")
		if fr.loopEntry == nil {
			fr.loopEntry = map[int]map[string]string{}
			fr.loopEntryCnt = map[int]map[string]string{}
		}
		fr.loopEntry[ord] = st.snapshot()
		cc := map[string]string{}
		for k2, v2 := range st.cnt {
			cc[k2] = v2
		}
		fr.loopEntryCnt[ord] = cc
		if fr.loopEntryNames == nil {
			fr.loopEntryNames = map[int]map[string]Val{}
		}
		nn := make(map[string]Val, len(fr.names))
		for k2, v2 := range fr.names {
			nn[k2] = v2
		}
		fr.loopEntryNames[ord] = nn
		for _, c := range invs {
			g := ex.evalClause(st, fr, c, nil)
			ex.oblige(st, "invariant-entry", fmt.Sprintf("%s/loop%d.%s.entry", fr.key, ord, c.name()), c.Labels, g, c, ex.posOfBlock(b))
		}
		fr.cut[b] = true
		if fr.heldAtLoopM == nil {
			fr.heldAtLoopM = map[*ssa.BasicBlock][]string{}
		}
		fr.heldAtLoopM[b] = st.heldKeys()
		// havoc
		for _, ph := range phis {
			nv := ex.symVal(st, ph.Type(), "phi."+ph.Comment)
			if ph.Comment == "rangeindex" {
				// compiler-generated slice range index: starts at -1, incremented before the bound test
				st.assume("(and (>= " + nv.T + " (- 1)) (<= " + nv.T + " 4611686018427387903))")
				nv.Lo, nv.Hi = big.NewInt(-1), lenHi
				// shape of the compiler-generated loop:  i' = i + 1 ; if i' < n  (n fixed before the loop):
				// the index never reaches n
				for _, hin := range b.Instrs {
					if cmp, ok := hin.(*ssa.BinOp); ok && cmp.Op == token.LSS {
						if inc, ok := cmp.X.(*ssa.BinOp); ok && inc.Op == token.ADD && inc.X == ssa.Value(ph) {
							if nval, have := fr.vals[cmp.Y]; have {
								st.assume("(< " + nv.T + " " + nval.T + ")")
							}
						}
					}
				}
			}
			fr.vals[ph] = nv
			if ph.Comment != "" {
				fr.names[ph.Comment] = nv
			}
		}
		ms := ex.loopModSet(b)
		for _, a := range ms.arrays() {
			switch a {
			case "closed":
				ex.havocClosed(st)
			case "ctxdone":
				ex.observeCtx(st)
			default:
				st.havoc(a)
			}
		}
		for _, c := range ex.expandCounters(st, ms) {
			if _, ok := st.ex.cntInit[c]; ok || st.cnt[c] != "" {
				st.cnt[c] = st.fresh("cnt."+c, "Int")
			} else {
				st.counter(c)
				st.cnt[c] = st.fresh("cnt."+c, "Int")
			}
			st.assume("(>= " + st.cnt[c] + " " + fr.entryCntOr(st, c) + ")")
		}
		if ms.unknown {
			ex.notes["LOOP-HAVOC-UNKNOWN "+fr.key] = true
		}
		// start of the iteration (havoced state): iterstart(N, e) refers to it
		if fr.iterStart == nil {
			fr.iterStart = map[int]map[string]string{}
			fr.iterStartCnt = map[int]map[string]string{}
			fr.iterStartNames = map[int]map[string]Val{}
		}
		fr.iterStart[ord] = st.snapshot()
		ic := map[string]string{}
		for k2, v2 := range st.cnt {
			ic[k2] = v2
		}
		fr.iterStartCnt[ord] = ic
		in := make(map[string]Val, len(fr.names))
		for k2, v2 := range fr.names {
			in[k2] = v2
		}
		fr.iterStartNames[ord] = in
		for _, c := range invs {
			st.assume(ex.evalClause(st, fr, c, nil))
		}
	} else {
		for i, ph := range phis {
			fr.vals[ph] = incoming[i]
			if ph.Comment != "" {
				fr.names[ph.Comment] = incoming[i]
			}
		}
	}
	ex.instrs(st, fr, b, len(phis), k)
}

func (fr *Frame) entryCntOr(st *State, c string) string {
	if v, ok := fr.entryCnt[c]; ok {
		return v
	}
	return st.ex.cntInit[c]
}

func (ex *Exec) posOfBlock(b *ssa.BasicBlock) string {
	for _, in := range b.Instrs {
		if p := ex.posOf(in); p != "" {
			return p
		}
	}
	return ""
}

func (ex *Exec) checkHeldBalanced(st *State, fr *Frame, b *ssa.BasicBlock) {
	a := strings.Join(st.heldKeys(), ",")
	bb := strings.Join(fr.heldAtLoopM[b], ",")
	if a != bb {
		ex.notes[fmt.Sprintf("LOCK-IMBALANCE %s loop %d: held at entry {%s} at back edge {%s}", fr.key, loopOrdinal(b), bb, a)] = true
	}
}

func (ex *Exec) instrs(st *State, fr *Frame, b *ssa.BasicBlock, i int, k Cont) {
	for ; i < len(b.Instrs); i++ {
		in := b.Instrs[i]
		ex.curState = st
		switch x := in.(type) {
		case *ssa.If:
			c := ex.val(st, fr, x.Cond)
			if c.T == "true" {
				ex.block(st, fr, b.Succs[0], b, k)
				return
			}
			if c.T == "false" {
				ex.block(st, fr, b.Succs[1], b, k)
				return
			}
			st2 := st.clone()
			fr2 := fr.clone()
			st.assume(c.T)
			st.note(fmt.Sprintf("%s: b%d->b%d", fr.fn.Name(), b.Index, b.Succs[0].Index))
			ex.block(st, fr, b.Succs[0], b, k)
			st2.assume(smtNot(c.T))
			st2.note(fmt.Sprintf("%s: b%d->b%d", fr.fn.Name(), b.Index, b.Succs[1].Index))
			ex.block(st2, fr2, b.Succs[1], b, k)
			return
		case *ssa.Jump:
			ex.block(st, fr, b.Succs[0], b, k)
			return
		case *ssa.Return:
			var ret Val
			switch len(x.Results) {
			case 0:
				ret = Val{Typ: types.NewTuple()}
			case 1:
				ret = ex.val(st, fr, x.Results[0])
			default:
				ret = Val{Typ: fr.fn.Signature.Results()}
				for _, r := range x.Results {
					ret.Elems = append(ret.Elems, ex.val(st, fr, r))
				}
			}
			fr.results = ret
			fr.retInstr = x
			k(st, fr, ret)
			return
		case *ssa.Panic:
			ex.safety(st, fr, x, "panic", "explicit", "false")
			ex.paths++
			return
		case *ssa.RunDefers:
			// run deferred calls in reverse, then continue
			// the value about to be returned is already computed when the results are unnamed (go/ssa
			// emits "rundefers; return v"): deferred calls may be specified against it ("returning")
			fr.pending = nil
			if r, ok := b.Instrs[len(b.Instrs)-1].(*ssa.Return); ok && len(r.Results) >= 1 {
				// go/ssa keeps the results of a function with defers in result slots: "*slot = v;
				// rundefers; t = *slot; return t" - the slot's content now is what is being returned
				pend := func(rv ssa.Value) (Val, bool) {
					if _, have := fr.vals[rv]; have {
						return ex.val(st, fr, rv), true
					}
					if _, isC := rv.(*ssa.Const); isC {
						return ex.val(st, fr, rv), true
					}
					if u, ok := rv.(*ssa.UnOp); ok && u.Op == token.MUL {
						if _, have := fr.vals[u.X]; have {
							return ex.load(st, ex.val(st, fr, u.X)), true
						}
					}
					return Val{}, false
				}
				if len(r.Results) == 1 {
					if pv, ok := pend(r.Results[0]); ok {
						fr.pending = &pv
					}
				} else {
					pv := Val{Typ: fr.fn.Signature.Results()}
					all := true
					for _, rr := range r.Results {
						e, ok := pend(rr)
						all = all && ok
						pv.Elems = append(pv.Elems, e)
					}
					if all {
						fr.pending = &pv
					}
				}
			}
			ex.runDefers(st, fr, len(fr.defers)-1, func(st2 *State, fr2 *Frame) {
				fr2.pending = nil
				ex.instrs(st2, fr2, b, i+1, k)
			})
			return
		case *ssa.Call:
			ii := i
			ex.doCall(st, fr, x, x.Common(), func(st2 *State, fr2 *Frame, ret Val) {
				fr2.vals[x] = ret
				ex.instrs(st2, fr2, b, ii+1, k)
			})
			return
		case *ssa.Select:
			ii := i
			ex.doSelect(st, fr, x, func(st2 *State, fr2 *Frame, ret Val) {
				fr2.vals[x] = ret
				ex.instrs(st2, fr2, b, ii+1, k)
			})
			return
		case *ssa.Send:
			ch := ex.val(st, fr, x.Chan)
			v := ex.val(st, fr, x.X)
			ex.ctxAware(st, fr, x, "send", false)
			ex.escapes(st, fr, x, "send", nil)
			ex.doSend(st, fr, x, ch, v, true)
		case *ssa.UnOp:
			if x.Op == token.ARROW {
				ch := ex.val(st, fr, x.X)
				ex.ctxAware(st, fr, x, "recv", strings.HasPrefix(ch.Origin, "ctxdone:"), strings.TrimPrefix(ch.Origin, "ctxdone:"))
				ex.escapes(st, fr, x, "recv", []string{ch.T})
				fr.vals[x] = ex.doRecv(st, fr, x, ch, x.CommaOk, x.Type())
				continue
			}
			fr.vals[x] = ex.unop(st, fr, x)
		default:
			ex.simple(st, fr, in)
		}
	}
}

func (ex *Exec) runDefers(st *State, fr *Frame, idx int, k func(*State, *Frame)) {
	if idx < 0 {
		fr.defers = nil
		k(st, fr)
		return
	}
	d := fr.defers[idx]
	ex.applyCall(st, fr, d.instr, d.call, d.fnv, d.args, func(st2 *State, fr2 *Frame, _ Val) {
		ex.runDefers(st2, fr2, idx-1, k)
	})
}

// simple handles instructions without control effects.
func (ex *Exec) simple(st *State, fr *Frame, in ssa.Instruction) {
	switch x := in.(type) {
	case *ssa.DebugRef:
		if id, ok := x.Expr.(interface{ String() string }); ok {
			_ = id
		}
		// only identifiers name variables: a selector h.ctx refers to the field object "ctx"
		if _, isIdent := x.Expr.(*ast.Ident); !isIdent {
			break
		}
		if vv, isVar := x.Object().(*types.Var); isVar && vv.IsField() {
			break
		}
		if x.IsAddr {
			if obj := x.Object(); obj != nil {
				fr.names["&"+obj.Name()] = ex.val(st, fr, x.X)
			}
		} else if obj := x.Object(); obj != nil {
			if vv, isVar := obj.(*types.Var); isVar && !vv.IsField() {
				bindTo := x.X
				if _, isConst := x.X.(*ssa.Const); isConst {
					// x/tools v0.29 records the zero value at some definitions (md := T{}) although the
					// variable's value is an instruction that already executed; prefer that value when a
					// later reference to the same variable names it
					for _, bb := range fr.fn.Blocks {
						for _, in2 := range bb.Instrs {
							if d2, ok := in2.(*ssa.DebugRef); ok && !d2.IsAddr && d2.Object() == obj {
								if _, c2 := d2.X.(*ssa.Const); !c2 {
									if _, have := fr.vals[d2.X]; have {
										bindTo = d2.X
									} else if in3, ok := d2.X.(ssa.Instruction); ok && in3.Block() == x.Block() {
										// defined later in this very block: resolve when it exists
										if fr.nameAlias == nil {
											fr.nameAlias = map[string]ssa.Value{}
										}
										fr.nameAlias[obj.Name()] = d2.X
									}
								}
							}
						}
					}
				}
				fr.names[obj.Name()] = ex.val(st, fr, bindTo)
				if os.Getenv("GOATVC_DBG") != "" {
					fmt.Printf("DBG debugref %s := %s (%T %s) in %s block %d pos %s\n", obj.Name(), fr.names[obj.Name()].T, x.X, x.X.Name(), fr.key, x.Block().Index, ex.posOf(x))
				}
			}
		}
	case *ssa.Alloc:
		ref := ex.allocRef()
		v := ex.mkVal(x.Type(), ref)
		if v.Arr != "" {
			v.Arr = cellName(x)
		}
		ex.zeroObject(st, v)
		fr.vals[x] = v
		if x.Comment != "" {
			fr.names["&"+x.Comment] = v
		}
	case *ssa.FieldAddr:
		p := ex.val(st, fr, x.X)
		ex.safety(st, fr, x, "nil", fieldName(x.X.Type(), x.Field), "(distinct "+p.T+" 0)")
		st.assume("(distinct " + p.T + " 0)")
		if p.Root == "" || structOf(derefType(p.Typ)) == nil {
			// pointer without struct info (e.g. from unknown source): rebuild from static type
			p2 := ex.mkVal(x.X.Type(), p.T)
			p2.Prefix = p.Prefix
			if p.Root != "" {
				p2.Root = p.Root
			}
			p = p2
		}
		fr.vals[x] = ex.fieldPtr(p, x.Field)
	case *ssa.Field:
		s := ex.val(st, fr, x.X)
		if x.Field < len(s.Elems) {
			fr.vals[x] = s.Elems[x.Field]
		} else {
			ex.unsupported("Field on non-composite")
			fr.vals[x] = ex.symVal(st, x.Type(), "fld")
		}
	case *ssa.Store:
		p := ex.val(st, fr, x.Addr)
		v := ex.val(st, fr, x.Val)
		ex.discipline(st, fr, x, p, true)
		ex.store(st, p, v)
	case *ssa.BinOp:
		fr.vals[x] = ex.binop(st, fr, x)
	case *ssa.ChangeType:
		v := ex.val(st, fr, x.X)
		v.Typ = x.Type()
		fr.vals[x] = v
	case *ssa.ChangeInterface:
		v := ex.val(st, fr, x.X)
		v.Typ = x.Type()
		fr.vals[x] = v
	case *ssa.Convert:
		fr.vals[x] = ex.convert(st, fr, x)
	case *ssa.MakeInterface:
		fr.vals[x] = ex.makeInterface(st, ex.val(st, fr, x.X), x.Type())
	case *ssa.TypeAssert:
		fr.vals[x] = ex.typeAssert(st, fr, x)
	case *ssa.Extract:
		t := ex.val(st, fr, x.Tuple)
		if x.Index < len(t.Elems) {
			fr.vals[x] = t.Elems[x.Index]
		} else {
			ex.unsupported("extract from non-tuple")
			fr.vals[x] = ex.symVal(st, x.Type(), "ext")
		}
	case *ssa.MakeClosure:
		fn := x.Fn.(*ssa.Function)
		var binds []Val
		for _, b := range x.Bindings {
			binds = append(binds, ex.val(st, fr, b))
		}
		ref := ex.allocRef()
		fr.vals[x] = Val{T: ref, S: "Int", Typ: x.Type(), Fn: fn, Binds: binds}
		if ckey := ex.prog.Keys[fn]; ckey != "" {
			csp := ex.specs.Funcs[ckey]
			cpf := ex.pseudoFrame(fn, ckey, csp, nil, binds, st)
			ex.closureEntry(st, cpf, fn, binds, csp, fr, x)
		}
	case *ssa.MakeChan:
		ref := ex.allocRef()
		sz := ex.val(st, fr, x.Size)
		st.assume("(= (ch_cap " + ref + ") " + sz.T + ")")
		st.write("closed", "Bool", ref, "false")
		v := ex.mkVal(x.Type(), ref)
		st.write(chlenArr(v), "Int", ref, "0")
		ord := ex.ordinalOf(fr, x, "makechan")
		classed := false
		nc := false
		if fr.spec != nil {
			for _, g := range fr.spec.MakeChans {
				if g.Ord == ord && g.NC {
					nc = true
				}
				if g.Ord == ord && g.Own {
					st.pinned = append(st.pinned, ref)
				}
			}
		}
		if nc {
			st.assume("(ch_nc " + ref + ")")
		} else {
			st.assume("(not (ch_nc " + ref + "))")
		}
		if fr.spec != nil {
			for _, g := range fr.spec.MakeChans {
				if g.Ord == ord {
					tv := ex.evalSpec(st, fr, g.Tag, nil)
					st.assume("(= (ch_tag " + ref + ") " + tv.T + ")")
					if cc := ex.specs.Classes[g.Class]; cc != nil {
						st.assume(fmt.Sprintf("(= (ch_class %s) %d)", ref, cc.ID))
						classed = true
					} else if g.Class != "" {
						ex.specError("unknown channel class %s", g.Class)
					}
				}
			}
		}
		if !classed {
			st.assume("(= (ch_class " + ref + ") 0)")
		}
		fr.vals[x] = v
	case *ssa.MakeMap:
		ref := ex.allocRef()
		v := ex.mkVal(x.Type(), ref)
		mt := types.Unalias(x.Type()).Underlying().(*types.Map)
		mk := mapKey(mt)
		ks := sortOf(mt.Key())
		st.write("Mdom."+mk, "(Array "+ks+" Bool)", ref, "((as const (Array "+ks+" Bool)) false)")
		st.write("Mlen."+mk, "Int", ref, "0")
		fr.vals[x] = v
	case *ssa.MakeSlice:
		id := st.fresh("mkslice", "Int")
		ln := ex.val(st, fr, x.Len)
		// make([]T, n) panics for n < 0 (and for absurd sizes; 2^47 elements is far beyond any real limit)
		lg := "(and (>= " + ln.T + " 0) (< " + ln.T + " 140737488355328))"
		ex.safety(st, fr, x, "makeslice", "len", lg)
		st.assume(lg)
		if x.Cap != nil {
			cp := ex.val(st, fr, x.Cap)
			cg := "(and (>= " + cp.T + " " + ln.T + ") (< " + cp.T + " 140737488355328))"
			ex.safety(st, fr, x, "makeslice", "cap", cg)
			st.assume(cg)
		}
		st.assume("(distinct " + id + " 0)")
		st.assume("(= (slen " + id + ") " + ln.T + ")")
		fr.vals[x] = ex.mkVal(x.Type(), id)
	case *ssa.MapUpdate:
		m := ex.val(st, fr, x.Map)
		kv := ex.val(st, fr, x.Key)
		vv := ex.val(st, fr, x.Value)
		ex.safety(st, fr, x, "nilmap", "update", "(distinct "+m.T+" 0)")
		ex.disciplineMap(st, fr, x, m, true)
		ex.mapUpdate(st, m, kv, vv)
	case *ssa.Lookup:
		fr.vals[x] = ex.lookup(st, fr, x)
	case *ssa.IndexAddr:
		fr.vals[x] = ex.indexAddr(st, fr, x)
	case *ssa.Index:
		if sortOf(x.X.Type()) == "String" {
			a := ex.val(st, fr, x.X)
			i := ex.val(st, fr, x.Index)
			g := "(and (<= 0 " + i.T + ") (< " + i.T + " (str.len " + a.T + ")))"
			ex.safety(st, fr, x, "index", "string", g)
			st.assume(g)
			cv := ex.mkVal(x.Type(), "(str.to_code (str.at "+a.T+" "+i.T+"))")
			cv.Lo, cv.Hi = big.NewInt(0), big.NewInt(255)
			fr.vals[x] = cv
			break
		}
		ex.unsupported("Index on array value")
		fr.vals[x] = ex.symVal(st, x.Type(), "idx")
	case *ssa.Slice:
		fr.vals[x] = ex.sliceOp(st, fr, x)
	case *ssa.Range:
		m := ex.val(st, fr, x.X)
		mt, ok := types.Unalias(x.X.Type()).Underlying().(*types.Map)
		if !ok {
			ex.unsupported("range over %v", x.X.Type())
			fr.vals[x] = Val{T: ex.allocRef(), S: "Int", Typ: x.Type()}
			break
		}
		it := ex.allocRef()
		ks := sortOf(mt.Key())
		st.write("visited."+ks, "(Array "+ks+" Bool)", it, "((as const (Array "+ks+" Bool)) false)")
		iv := Val{T: it, S: "Int", Typ: x.Type(), Elems: []Val{m}}
		fr.vals[x] = iv
		fr.lastIter = &iv
	case *ssa.Next:
		fr.vals[x] = ex.next(st, fr, x)
	case *ssa.Defer:
		c := x.Common()
		var d deferred
		d.call = c
		d.instr = x
		if !c.IsInvoke() {
			d.fnv = ex.val(st, fr, c.Value)
		} else {
			d.fnv = ex.val(st, fr, c.Value)
		}
		for _, a := range c.Args {
			d.args = append(d.args, ex.val(st, fr, a))
		}
		fr.defers = append(fr.defers, d)
	case *ssa.Go:
		ex.doGo(st, fr, x)
	case *ssa.Phi:
		// handled at block entry
	default:
		ex.unsupported("instruction %T", in)
		if v, ok := in.(ssa.Value); ok {
			fr.vals[v] = ex.symVal(st, v.Type(), "unk")
		}
	}
}

func fieldName(ptrT types.Type, i int) string {
	s := structOf(derefType(ptrT))
	if s == nil || i >= s.NumFields() {
		return "?"
	}
	return s.Field(i).Name()
}

func mapKey(mt *types.Map) string {
	return smtSym(types.TypeString(mt, func(p *types.Package) string { return p.Name() }))
}

// globalFacts: what is assumed of package-level variables of dependencies: error sentinels
// (io.EOF, context.Canceled, ...) are non-nil, pairwise distinct, never reassigned, not status errors.
func (ex *Exec) globalFacts(st *State, addr, val string, t types.Type) {
	if !strings.HasPrefix(addr, "g.") {
		return
	}
	if types.Identical(t, types.Universe.Lookup("error").Type()) {
		id := hashStr(addr)
		st.assume("(and (distinct " + val + " 0) (isSentinel " + val + ") (not (isStatus " + val + ")) (= (sentinelId " + val + ") " + fmt.Sprint(id) + "))")
		ex.use("assumed-global:" + addr + " is an immutable non-nil sentinel error")
	}
}

// expandCounters resolves wildcard entries ("send:*") against the counters known so far.
func (ex *Exec) expandCounters(st *State, ms *modSet) []string {
	seen := map[string]bool{}
	var out []string
	add := func(k string) {
		if !seen[k] {
			seen[k] = true
			out = append(out, k)
		}
	}
	for _, c := range ms.counters() {
		if strings.HasSuffix(c, "*") {
			pre := strings.TrimSuffix(c, "*")
			match := func(k string) bool {
				if !strings.HasPrefix(k, pre) {
					return false
				}
				if pre == "fnfield:" && len(ms.fnTypes) > 0 {
					// only function-valued fields of a type that is actually called here
					if ft := ex.fieldTypeOfArr(strings.TrimPrefix(k, "fnfield:")); ft != nil {
						return ms.fnTypes[types.TypeString(types.Unalias(ft), nil)]
					}
				}
				return true
			}
			for k := range ex.cntInit {
				if match(k) {
					add(k)
				}
			}
			for k := range st.cnt {
				if match(k) {
					add(k)
				}
			}
			continue
		}
		add(c)
	}
	sort.Strings(out)
	return out
}

// cellName: each local variable cell (Alloc of a non-struct) has its own heap array, so that
// havocs of one captured variable do not disturb the others.
func cellName(a *ssa.Alloc) string {
	el := derefType(a.Type())
	so := sortOf(el)
	if so == "" {
		so = "Int"
	}
	fn := a.Parent()
	name := a.Comment
	if name == "" {
		name = a.Name()
	}
	return "cell." + so + "." + smtSym(fn.String()) + "." + smtSym(name)
}

// resolveCell: the heap array behind a pointer-valued SSA value that denotes a variable cell
// (an Alloc, or a closure's free variable bound to an Alloc of an enclosing function).
func resolveCell(v ssa.Value) (string, bool) {
	switch x := v.(type) {
	case *ssa.Alloc:
		if structOf(derefType(x.Type())) != nil {
			return "", false
		}
		return cellName(x), true
	case *ssa.FreeVar:
		fn := x.Parent()
		idx := -1
		for i, fv := range fn.FreeVars {
			if fv == x {
				idx = i
			}
		}
		par := fn.Parent()
		if par == nil || idx < 0 {
			return "", false
		}
		for _, b := range par.Blocks {
			for _, in := range b.Instrs {
				if mc, ok := in.(*ssa.MakeClosure); ok && mc.Fn == fn && idx < len(mc.Bindings) {
					return resolveCell(mc.Bindings[idx])
				}
			}
		}
	}
	return "", false
}

// ctxAware: in functions marked ctxaware a blocking channel operation needs a ctx.Done() alternative.
// escapes: every blocking channel operation of a function with `escape <ch>` clauses offers a receive
// on that channel (recvChans: the channels of the receive cases of the select; none for a bare operation)
// inheritedFlags: a helper or closure executed in place, without flag clauses of its own, is part of
// the function it runs in: that function's ctxaware / nonblocking / escape clauses apply to its
// blocking operations too (their expressions are evaluated in that function's frame).
func (ex *Exec) inheritedFlags(fr *Frame) (*FuncSpec, *Frame) {
	sp := fr.spec
	own := sp != nil && (sp.CtxAware != nil || sp.NonBlock != nil || len(sp.Escape) > 0)
	if own || fr.top || ex.topFrame == nil || ex.topFrame == fr {
		return sp, fr
	}
	if sp == nil || sp.Inline {
		return ex.topFrame.spec, ex.topFrame
	}
	return sp, fr
}

func (ex *Exec) escapes(st *State, fr0 *Frame, instr ssa.Instruction, what string, recvChans []string) {
	sp, fr := ex.inheritedFlags(fr0)
	if sp == nil {
		return
	}
	for _, c := range sp.Escape {
		want := ex.evalSpec(st, fr, c.Expr, nil)
		var alts []string
		for _, rc := range recvChans {
			alts = append(alts, "(= "+rc+" "+want.T+")")
		}
		goal := "false"
		if len(alts) > 0 {
			goal = smtOr(alts...)
		}
		ex.oblige(st, "escape", fmt.Sprintf("%s#escape@%s#%d.%s", fr0.key, what, ex.ordinalOf(fr0, instr, what), c.name()), c.Labels, goal, c, ex.posOf(instr))
	}
}

func (ex *Exec) ctxAware(st *State, fr0 *Frame, instr ssa.Instruction, what string, ok bool, ctxs ...string) {
	sp, fr := ex.inheritedFlags(fr0)
	if sp != nil && sp.NonBlock != nil {
		// reached only for blocking operations (plain send/receive, select without default)
		ex.oblige(st, "nonblocking", fmt.Sprintf("%s#nonblocking@%s#%d", fr0.key, what, ex.ordinalOf(fr0, instr, what)), sp.NonBlock.Labels, "false", sp.NonBlock, ex.posOf(instr))
	}
	if sp == nil || sp.CtxAware == nil {
		if os.Getenv("GOATVC_SWEEP") != "" && !ok {
			// diagnostic mode: list every blocking channel operation that has no context alternative
			ex.oblige(st, "ctxaware", fmt.Sprintf("%s#sweep-blocking@%s#%d", fr0.key, what, ex.ordinalOf(fr0, instr, what)), sweepClause.Labels, "false", sweepClause, ex.posOf(instr))
		}
		return
	}
	goal := "false"
	if ok {
		goal = "true"
		if sp.CtxAware.Expr != nil {
			// one of the Done channels waited on belongs to the named context
			want := ex.evalSpec(st, fr, sp.CtxAware.Expr, nil)
			if os.Getenv("GOATVC_DBG") != "" {
				fmt.Printf("DBG ctxaware %s want=%s ctxs=%v names[ctx]=%v\n", fr.key, want.T, ctxs, fr.names["ctx"].T)
			}
			var alts []string
			for _, c := range ctxs {
				alts = append(alts, "(= "+c+" "+want.T+")")
			}
			goal = smtOr(alts...)
		}
	}
	ex.oblige(st, "ctxaware", fmt.Sprintf("%s#ctxaware@%s#%d", fr0.key, what, ex.ordinalOf(fr0, instr, what)), sp.CtxAware.Labels, goal, sp.CtxAware, ex.posOf(instr))
}

// fieldTypeOfArr: static type of the struct field behind a heap array name "H.<type key>.<path>".
func (ex *Exec) fieldTypeOfArr(arr string) types.Type {
	if !strings.HasPrefix(arr, "H.") {
		return nil
	}
	rest := strings.TrimPrefix(arr, "H.")
	for i := len(rest) - 1; i > 0; i-- {
		if rest[i] == '.' {
			if t := ex.namedType(rest[:i]); t != nil {
				if ft := ex.fieldTypeAt(rest[:i], rest[i+1:]); ft != nil {
					return ft
				}
			}
		}
	}
	return nil
}
