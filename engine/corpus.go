package main

import (
	"encoding/json"
	"os"
	"os/exec"
	"path/filepath"
	"sort"
	"strings"
	"sync"
)

// runCorpus (thorough tier): every must-fail mutant and every confirmed seeded change recorded for
// property P is applied to a scratch copy of the repository (never to the repository itself) and
// this very check must report a VIOLATION there.
func runCorpus(repo, P string) (ran int, caught int, missed []string, skipped []string) {
	type item struct{ name, patch string }
	var items []item
	metas, _ := filepath.Glob(filepath.Join(verifDir, "selftest", "mutants", "*.json"))
	for _, m := range metas {
		data, err := os.ReadFile(m)
		if err != nil {
			continue
		}
		var meta struct {
			Name       string   `json:"name"`
			Properties []string `json:"properties"`
		}
		if json.Unmarshal(data, &meta) != nil {
			continue
		}
		for _, p := range meta.Properties {
			if p == P {
				items = append(items, item{"mutant:" + meta.Name, strings.TrimSuffix(m, ".json") + ".patch"})
			}
		}
	}
	seeds, _ := filepath.Glob(filepath.Join(verifDir, "seeded", "*", "meta.json"))
	for _, m := range seeds {
		data, err := os.ReadFile(m)
		if err != nil {
			continue
		}
		var meta struct {
			ID     string `json:"id"`
			Breaks string `json:"breaks_property"`
		}
		if json.Unmarshal(data, &meta) != nil || meta.Breaks != P {
			continue
		}
		items = append(items, item{"seeded:" + meta.ID, filepath.Join(filepath.Dir(m), "patch.diff")})
	}
	sort.Slice(items, func(i, j int) bool { return items[i].name < items[j].name })
	self, _ := os.Executable()
	// four changes at a time (each check runs its own solver pool)
	var mu sync.Mutex
	var wg sync.WaitGroup
	sem := make(chan struct{}, 4)
	for _, it := range items {
		it := it
		wg.Add(1)
		sem <- struct{}{}
		go func() {
			defer wg.Done()
			defer func() { <-sem }()
			scratch, err := os.MkdirTemp("", "goatvc-corpus-")
			if err != nil {
				return
			}
			defer os.RemoveAll(scratch)
			if exec.Command("rsync", "-a", "--exclude", ".git", repo+"/", scratch+"/").Run() != nil {
				mu.Lock()
				skipped = append(skipped, it.name+" (copy failed)")
				mu.Unlock()
				return
			}
			pc := exec.Command("patch", "-p1", "-s", "-i", it.patch)
			pc.Dir = scratch
			if pc.Run() != nil {
				mu.Lock()
				skipped = append(skipped, it.name+" (patch does not apply to this tree)")
				mu.Unlock()
				return
			}
			c := exec.Command(self, "check", "-repo", scratch, "-prop", P, "-no-evidence", "-tier", "quick")
			c.Env = append(os.Environ(), "VERIF_DIR="+verifDir)
			out, _ := c.CombinedOutput()
			mu.Lock()
			defer mu.Unlock()
			ran++
			if c.ProcessState != nil && c.ProcessState.ExitCode() == 1 && strings.Contains(string(out), "VIOLATION property="+P) {
				caught++
			} else {
				missed = append(missed, it.name)
			}
		}()
	}
	wg.Wait()
	sort.Strings(missed)
	sort.Strings(skipped)
	return
}
