package main

import (
	"runtime"
	"bytes"
	"context"
	"fmt"
	"os"
	"os/exec"
	"path/filepath"
	"regexp"
	"sort"
	"strings"
	"sync"
	"time"
)

// ---------- prelude ----------

type preludeSig struct {
	args []string
	res  string
}

type preludeForm struct {
	text    string
	defines string   // symbol defined/declared ("" for asserts)
	uses    []string // prelude symbols mentioned
	trigger []string // symbols of the first :pattern (for axioms)
}

type Prelude struct {
	forms  []preludeForm
	funcs  map[string]preludeSig
	consts map[string]string
	syms   map[string]bool
}

var prelude = &Prelude{funcs: map[string]preludeSig{}, consts: map[string]string{}, syms: map[string]bool{}}

var symRe = regexp.MustCompile(`[A-Za-z_][A-Za-z0-9_.!]*`)

func splitForms(s string) []string {
	var forms []string
	depth, start := 0, -1
	inStr, inCmt := false, false
	for i := 0; i < len(s); i++ {
		c := s[i]
		if inCmt {
			if c == '\n' {
				inCmt = false
			}
			continue
		}
		if inStr {
			if c == '"' {
				inStr = false
			}
			continue
		}
		switch c {
		case ';':
			inCmt = true
		case '"':
			inStr = true
		case '(':
			if depth == 0 {
				start = i
			}
			depth++
		case ')':
			depth--
			if depth == 0 && start >= 0 {
				forms = append(forms, s[start:i+1])
				start = -1
			}
		}
	}
	return forms
}

func parseSortList(s string) []string {
	// s like "((x Int) (y String))" or "(Int String)"
	var out []string
	for _, f := range splitForms(s[1 : len(s)-1]) {
		fs := strings.Fields(strings.Trim(f, "()"))
		if len(fs) >= 2 {
			out = append(out, strings.Join(fs[1:], " "))
		}
	}
	return out
}

func loadPrelude(path string) error {
	data, err := os.ReadFile(path)
	if err != nil {
		return err
	}
	forms := splitForms(string(data))
	for _, f := range forms {
		pf := preludeForm{text: f}
		fields := strings.Fields(f)
		head := strings.TrimPrefix(fields[0], "(")
		switch head {
		case "declare-const":
			name := fields[1]
			pf.defines = name
			res := strings.TrimSuffix(strings.TrimSpace(f[strings.Index(f, name)+len(name):]), ")")
			prelude.consts[name] = strings.TrimSpace(res)
			prelude.funcs[name] = preludeSig{nil, strings.TrimSpace(res)}
			prelude.syms[name] = true
		case "define-fun", "declare-fun":
			name := fields[1]
			pf.defines = name
			inner := splitFormsTop(f)
			// inner[0] = arg list, remaining text has result sort
			var args []string
			var res string
			if head == "define-fun" {
				args = parseSortList(inner[0])
				rest := strings.TrimSpace(f[strings.Index(f, inner[0])+len(inner[0]):])
				res = firstSort(rest)
			} else {
				a := strings.TrimSpace(inner[0])
				if a != "()" {
					for _, x := range splitSorts(a[1 : len(a)-1]) {
						args = append(args, x)
					}
				}
				rest := strings.TrimSpace(f[strings.Index(f, inner[0])+len(inner[0]):])
				res = firstSort(rest)
			}
			if len(args) == 0 {
				prelude.consts[name] = res
			}
			prelude.funcs[name] = preludeSig{args, res}
			prelude.syms[name] = true
		}
		prelude.forms = append(prelude.forms, pf)
	}
	for i := range prelude.forms {
		pf := &prelude.forms[i]
		body := stripStrings(pf.text)
		seen := map[string]bool{}
		for _, s := range symRe.FindAllString(body, -1) {
			if prelude.syms[s] && s != pf.defines && !seen[s] {
				seen[s] = true
				pf.uses = append(pf.uses, s)
			}
		}
		if pf.defines == "" {
			if j := strings.Index(body, ":pattern"); j >= 0 {
				pat := body[j:]
				seenT := map[string]bool{}
				for _, s := range symRe.FindAllString(pat, -1) {
					if prelude.syms[s] && !seenT[s] {
						seenT[s] = true
						pf.trigger = append(pf.trigger, s)
					}
				}
			} else {
				pf.trigger = pf.uses
			}
		}
	}
	return nil
}

func stripStrings(s string) string {
	var b strings.Builder
	in := false
	for i := 0; i < len(s); i++ {
		if s[i] == '"' {
			in = !in
			b.WriteByte(' ')
			continue
		}
		if in {
			b.WriteByte(' ')
		} else {
			b.WriteByte(s[i])
		}
	}
	return b.String()
}

// splitFormsTop returns the parenthesised sub-forms directly inside f.
func splitFormsTop(f string) []string { return splitForms(f[1 : len(f)-1]) }

func splitSorts(s string) []string {
	var out []string
	s = strings.TrimSpace(s)
	for len(s) > 0 {
		if s[0] == '(' {
			fs := splitForms(s)
			out = append(out, fs[0])
			s = strings.TrimSpace(s[strings.Index(s, fs[0])+len(fs[0]):])
		} else {
			i := strings.IndexAny(s, " \t\n")
			if i < 0 {
				out = append(out, s)
				break
			}
			out = append(out, s[:i])
			s = strings.TrimSpace(s[i:])
		}
	}
	return out
}

func firstSort(rest string) string {
	rest = strings.TrimSpace(rest)
	if rest == "" {
		return ""
	}
	if rest[0] == '(' {
		return splitForms(rest)[0]
	}
	i := strings.IndexAny(rest, " \t\n)")
	if i < 0 {
		return rest
	}
	return rest[:i]
}

// preludeFor returns the subset of the prelude needed by a query body.
func preludeFor(body string) string {
	used := map[string]bool{}
	for _, s := range symRe.FindAllString(stripStrings(body), -1) {
		if prelude.syms[s] {
			used[s] = true
		}
	}
	include := make([]bool, len(prelude.forms))
	changed := true
	for changed {
		changed = false
		for i, pf := range prelude.forms {
			if include[i] {
				continue
			}
			ok := false
			if pf.defines != "" {
				ok = used[pf.defines]
			} else {
				ok = len(pf.trigger) > 0
				for _, t := range pf.trigger {
					if !used[t] {
						ok = false
					}
				}
			}
			if ok {
				include[i] = true
				changed = true
				for _, u := range pf.uses {
					if !used[u] {
						used[u] = true
					}
				}
			}
		}
	}
	var b strings.Builder
	for i, pf := range prelude.forms {
		if include[i] {
			b.WriteString(pf.text)
			b.WriteByte('\n')
		}
	}
	return b.String()
}

// ---------- scripts ----------

func (ex *Exec) script(ob *Obligation, negate bool) string { return ex.scriptWith(ob, negate, "") }

func (ex *Exec) scriptWith(ob *Obligation, negate bool, extra string) string {
	return ex.scriptOpts(ob, negate, extra, false)
}

// scriptOpts: with dropQuant every quantified hypothesis is left out. The result is weaker than
// the real query, so it is only used to hunt for candidate counterexamples that are then
// replayed on the real code; never to discharge anything.
func (ex *Exec) scriptOpts(ob *Obligation, negate bool, extra string, dropQuant bool) string {
	var body strings.Builder
	body.WriteString(extra)
	for _, p := range ob.PC {
		if dropQuant && strings.Contains(p, "(forall ") {
			continue
		}
		body.WriteString("(assert " + p + ")\n")
	}
	if negate {
		body.WriteString("(assert (not " + ob.Goal + "))\n")
	} else {
		body.WriteString("(assert " + ob.Goal + ")\n")
	}
	bs := body.String()
	// declarations: every known constant that occurs in the body
	seen := map[string]bool{}
	var decls []string
	var globals []string
	for _, s := range symRe.FindAllString(stripStrings(bs), -1) {
		if seen[s] {
			continue
		}
		seen[s] = true
		if so, ok := ex.sorts[s]; ok {
			decls = append(decls, "(declare-const "+s+" "+so+")")
			if ex.globals[s] {
				globals = append(globals, s)
			}
		}
	}
	sort.Strings(decls)
	var out strings.Builder
	out.WriteString("(set-option :produce-models true)\n(set-logic ALL)\n")
	pre := preludeFor(bs)
	if dropQuant {
		var kept []string
		for _, f := range splitForms(pre) {
			if strings.HasPrefix(f, "(assert") && strings.Contains(f, "(forall ") {
				continue
			}
			kept = append(kept, f)
		}
		pre = strings.Join(kept, "\n") + "\n"
	}
	out.WriteString(pre)
	out.WriteString(strings.Join(decls, "\n"))
	out.WriteString("\n")
	sort.Strings(globals)
	for _, g := range globals {
		out.WriteString("(assert (> " + g + " 0))\n")
	}
	if len(globals) > 1 {
		out.WriteString("(assert (distinct " + strings.Join(globals, " ") + "))\n")
	}
	out.WriteString(bs)
	out.WriteString("(check-sat)\n")
	return out.String()
}

// ---------- solvers ----------

type solverResult struct {
	status string // unsat | sat | unknown | timeout | error
	solver string
	ms     int64
	out    string
}

func runSolver(name string, args []string, script string, timeout time.Duration, wantModel bool) solverResult {
	ctx, cancel := context.WithTimeout(context.Background(), timeout+2*time.Second)
	defer cancel()
	if wantModel {
		script += "(get-model)\n"
	}
	cmd := exec.CommandContext(ctx, args[0], args[1:]...)
	cmd.Stdin = strings.NewReader(script)
	var out bytes.Buffer
	cmd.Stdout = &out
	cmd.Stderr = &out
	t0 := time.Now()
	_ = cmd.Run()
	ms := time.Since(t0).Milliseconds()
	o := out.String()
	first := strings.TrimSpace(strings.SplitN(o, "\n", 2)[0])
	r := solverResult{solver: name, ms: ms, out: o}
	switch first {
	case "unsat", "sat", "unknown":
		r.status = first
	case "timeout":
		r.status = "timeout"
	default:
		if ctx.Err() != nil {
			r.status = "timeout"
		} else {
			r.status = "error"
		}
	}
	return r
}

func solverCmd(which string, timeout time.Duration, seed int) (string, []string) {
	secs := int(timeout.Seconds())
	if secs < 1 {
		secs = 1
	}
	switch which {
	case "z3new":
		return "z3-new", []string{"z3-new", "-in", fmt.Sprintf("-T:%d", secs), fmt.Sprintf("smt.random_seed=%d", seed)}
	case "z3":
		return "z3-4.8.12", []string{"z3", "-in", fmt.Sprintf("-T:%d", secs), fmt.Sprintf("smt.random_seed=%d", seed)}
	case "cvc5":
		return "cvc5", []string{"cvc5", "--lang=smt2", "--strings-exp", fmt.Sprintf("--tlimit=%d", secs*1000), fmt.Sprintf("--seed=%d", seed), "-"}
	}
	return "", nil
}

type SolveCfg struct {
	T1, T2   time.Duration
	Seed     int
	Workers  int
	SaveDir  string
	AllAgree bool
}

// race runs several solvers on one script and returns at the first decisive answer.
func race(which []string, script string, timeout time.Duration, seed int) []solverResult {
	ctx, cancel := context.WithCancel(context.Background())
	defer cancel()
	ch := make(chan solverResult, len(which))
	for _, w := range which {
		go func(w string) {
			n, a := solverCmd(w, timeout, seed)
			ch <- runSolverCtx(ctx, n, a, script, timeout, true)
		}(w)
	}
	var out []solverResult
	for range which {
		r := <-ch
		out = append(out, r)
		if r.status == "unsat" || r.status == "sat" {
			cancel()
			break
		}
	}
	return out
}

func runSolverCtx(parent context.Context, name string, args []string, script string, timeout time.Duration, wantModel bool) solverResult {
	ctx, cancel := context.WithTimeout(parent, timeout+2*time.Second)
	defer cancel()
	if wantModel {
		script += "(get-model)\n"
	}
	cmd := exec.CommandContext(ctx, args[0], args[1:]...)
	cmd.Stdin = strings.NewReader(script)
	var out bytes.Buffer
	cmd.Stdout = &out
	cmd.Stderr = &out
	t0 := time.Now()
	_ = cmd.Run()
	ms := time.Since(t0).Milliseconds()
	o := out.String()
	first := strings.TrimSpace(strings.SplitN(o, "\n", 2)[0])
	r := solverResult{solver: name, ms: ms, out: o}
	switch first {
	case "unsat", "sat", "unknown":
		r.status = first
	case "timeout":
		r.status = "timeout"
	default:
		if parent.Err() != nil {
			r.status = "cancelled"
		} else if ctx.Err() != nil {
			r.status = "timeout"
		} else {
			r.status = "error"
		}
	}
	return r
}

// decideQuick: phase 1, one short shot with z3 5.1 (most obligations end here).
func (ex *Exec) decideQuick(ob *Obligation, cfg SolveCfg) {
	if ob.Trivial {
		ob.Status, ob.Solver = "unsat", "syntactic"
		return
	}
	script := ex.script(ob, true)
	ob.Script = script
	n, a := solverCmd("z3new", 2*time.Second, cfg.Seed)
	r := runSolver(n, a, script, 2*time.Second, true)
	ob.Ms += r.ms
	switch r.status {
	case "unsat":
		ob.Status, ob.Solver = "unsat", r.solver
	case "sat":
		ob.Status, ob.Solver, ob.Model = "sat", r.solver, r.out
	default:
		ob.Status = ""
	}
}

// decideRace: phases 2/3, all three solvers race with the given timeout.
func (ex *Exec) decideRace(ob *Obligation, cfg SolveCfg, timeout time.Duration) {
	results := race([]string{"z3", "cvc5", "z3new"}, ob.Script, timeout, cfg.Seed)
	for _, rr := range results {
		ob.Ms += rr.ms
	}
	for _, rr := range results {
		if rr.status == "unsat" {
			ob.Status, ob.Solver = "unsat", rr.solver
			return
		}
	}
	for _, rr := range results {
		if rr.status == "sat" {
			ob.Status, ob.Solver, ob.Model = "sat", rr.solver, rr.out
			return
		}
	}
	ob.Status = "unknown"
	var ss []string
	for _, rr := range results {
		ss = append(ss, rr.solver+":"+rr.status)
	}
	ob.Solver = strings.Join(ss, ",")
}

func (ex *Exec) hunt(ob *Obligation, cfg SolveCfg) {
	// model hunt: quantifier-free weakening, only to obtain a candidate input for replay
	h := ex.scriptOpts(ob, true, "", true)
	n2, a2 := solverCmd("z3new", 5*time.Second, cfg.Seed)
	if hr := runSolver(n2, a2, h, 5*time.Second, true); hr.status == "sat" {
		ob.Model = hr.out
		ob.Hunted = true
	}
}

func parallel(obls []*Obligation, workers int, f func(*Obligation)) {
	ch := make(chan *Obligation)
	var wg sync.WaitGroup
	for i := 0; i < workers; i++ {
		wg.Add(1)
		go func() {
			defer wg.Done()
			for ob := range ch {
				f(ob)
			}
		}()
	}
	for _, ob := range obls {
		ch <- ob
	}
	close(ch)
	wg.Wait()
}

// decideAll: (1) a short z3 shot for everything, 12 at a time; (2) a three-solver race for the
// rest, 4 at a time; (3) whatever is still undecided is retried one at a time with a long
// timeout, so that a verdict never depends on how loaded the machine was.
func (ex *Exec) decideAll(obls []*Obligation, cfg SolveCfg) {
	parallel(obls, 12, func(ob *Obligation) { ex.decideQuick(ob, cfg) })
	var rest []*Obligation
	for _, ob := range obls {
		if ob.Status == "" {
			if ex.openFindings[ob.Name] {
				// an obligation recorded as an open known finding is expected to fail: no long retries
				ob.Status, ob.Solver = "unknown", "z3-5.1:no-answer-in-2s (known finding, not retried)"
				continue
			}
			rest = append(rest, ob)
		}
	}
	parallel(rest, 4, func(ob *Obligation) { ex.decideRace(ob, cfg, cfg.T2) })
	var hard []*Obligation
	for _, ob := range rest {
		if ob.Status == "unknown" {
			hard = append(hard, ob)
		}
	}
	// the long retries exist to keep a loaded machine from turning a slow proof into an alarm on a tree
	// where everything else holds; when some obligation already has a definite counter-model the run
	// fails anyway and the stragglers are reported as they are
	definite := false
	for _, ob := range obls {
		if ob.Status == "sat" && !ex.openFindings[ob.Name] {
			definite = true
		}
	}
	if definite {
		hard = nil
	}
	// few stragglers: most likely slow, not failing -> a long, nearly sequential retry (longer still when
	// the machine is busy); many: most likely a broken proof -> the shorter retry
	if len(hard) == 0 {
	} else if len(hard) <= 4 {
		t := 4 * cfg.T2
		if machineBusy() {
			t = 8 * cfg.T2
		}
		parallel(hard, 2, func(ob *Obligation) { ex.decideRace(ob, cfg, t) })
	} else if len(hard) <= 12 {
		for _, ob := range hard {
			ex.decideRace(ob, cfg, 3*cfg.T2)
		}
	}
	for _, ob := range obls {
		if ob.Status == "unknown" {
			ex.hunt(ob, cfg)
		}
	}
	if cfg.SaveDir != "" {
		os.MkdirAll(cfg.SaveDir, 0o755)
		for _, ob := range obls {
			if (ob.Status != "unsat" || os.Getenv("GOATVC_SAVEALL") != "") && ob.Script != "" {
				os.WriteFile(filepath.Join(cfg.SaveDir, fmt.Sprintf("%04d_%s.smt2", ob.ID, smtSym(ob.Name))), []byte(ob.Script), 0o644)
			}
		}
	}
}

// checkSat: is the path condition (plus goal un-negated) satisfiable? used for vacuity covers.
func (ex *Exec) coverSat(ob *Obligation, cfg SolveCfg) string {
	script := ex.script(ob, false)
	n, a := solverCmd("z3new", cfg.T1, cfg.Seed)
	r := runSolver(n, a, script, cfg.T1, false)
	if r.status == "sat" || r.status == "unsat" {
		return r.status
	}
	// quantifier-free weakening: unsat there means unsat here; sat there is taken as reachable
	weak := ex.scriptOpts(ob, false, "", true)
	r = runSolver(n, a, weak, cfg.T1, false)
	if r.status == "unsat" {
		return "unsat"
	}
	return "unknown"
}

// machineBusy: 1-minute load average above three quarters of the CPUs
func machineBusy() bool {
	data, err := os.ReadFile("/proc/loadavg")
	if err != nil {
		return false
	}
	var l1 float64
	fmt.Sscan(string(data), &l1)
	return l1 > 0.75*float64(runtime.NumCPU())
}
