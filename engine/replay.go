package main

import (
	"encoding/json"
	"fmt"
	"os"
	"path/filepath"
	"regexp"
	"strconv"
	"strings"
)

// lemma: one SMT query whose hypotheses and goal are spec expressions over declared variables.
func (ex *Exec) lemma(lm *LemmaSpec) {
	ex.curKey = "lemma " + lm.Name
	st := &State{ex: ex, heap: map[string]string{}, cnt: map[string]string{}, published: map[string]bool{}}
	fr := &Frame{key: ex.curKey, vals: nil, names: map[string]Val{}}
	extra := map[string]Val{}
	for _, v := range lm.Vars {
		c := st.fresh("lv."+v[0], v[1])
		extra[v[0]] = Val{T: c, S: v[1]}
	}
	for _, h := range lm.Hyps {
		hv := ex.evalSpecLemma(st, fr, h, extra)
		st.assume(hv.T)
	}
	if lm.Goal == nil {
		ex.specError("lemma %s has no ensures", lm.Name)
		return
	}
	for i, sx := range lm.Steps {
		sv := ex.evalSpecLemma(st, fr, sx, extra)
		sob := ex.obligeRaw(st, "lemma", fmt.Sprintf("lemma/%s/step%d", lm.Name, i), lm.Labels, sv.T)
		sob.Clause = &Clause{Text: lm.StepText[i], File: lm.File, Line: lm.Line}
		st = st.clone()
		st.assume(sv.T)
	}
	g := ex.evalSpecLemma(st, fr, lm.Goal, extra)
	ob := ex.obligeRaw(st, "lemma", "lemma/"+lm.Name, lm.Labels, g.T)
	ob.Clause = &Clause{Text: lm.Text, File: lm.File, Line: lm.Line}
}

func (ex *Exec) evalSpecLemma(st *State, fr *Frame, e *SExpr, extra map[string]Val) Val {
	ev := &evalCtx{ex: ex, st: st, fr: fr, extra: extra}
	// lemma frames have no ssa function
	defer func() {
		if r := recover(); r != nil {
			ex.specError("lemma %s: %v", fr.key, r)
		}
	}()
	v := ev.eval(e)
	for _, m := range ev.err {
		ex.specError("in %s: %s [expr %s]", fr.key, m, e.String())
	}
	return v
}

// ---------- replay files ----------

type ReplayFile struct {
	Property   string            `json:"property"`
	Obligation string            `json:"obligation"`
	Kind       string            `json:"kind"`
	Clause     string            `json:"clause,omitempty"`
	At         string            `json:"at,omitempty"`
	Verdict    string            `json:"solver_verdict"`
	Solver     string            `json:"solver"`
	Path       []string          `json:"path"`
	Model      map[string]string `json:"model,omitempty"`
	ModelRaw   string            `json:"solver_output,omitempty"`
	Replayed   bool              `json:"replayed_on_real_code"`
	ReplayOut  string            `json:"replay_output,omitempty"`
	ReplayTest string            `json:"replay_test,omitempty"`
	Script     string            `json:"smt_script_file,omitempty"`
}

var defFunRe = regexp.MustCompile(`\(define-fun ([^ ]+) \(\) (\S+|\([^)]*\))\s+`)

// parseModel extracts scalar constant values from a z3/cvc5 model.
func parseModel(out string) map[string]string {
	m := map[string]string{}
	idx := strings.Index(out, "(")
	if idx < 0 {
		return m
	}
	forms := splitForms(out[idx:])
	var scan func(f string)
	scan = func(f string) {
		if strings.HasPrefix(f, "(define-fun ") {
			loc := defFunRe.FindStringSubmatchIndex(f)
			if loc != nil {
				name := f[loc[2]:loc[3]]
				val := strings.TrimSpace(f[loc[1] : len(f)-1])
				m[name] = val
			}
			return
		}
		if strings.HasPrefix(f, "(model") || strings.HasPrefix(f, "((") || strings.HasPrefix(f, "(\n") || strings.HasPrefix(f, "( ") {
			for _, g := range splitFormsTop(f) {
				scan(g)
			}
			return
		}
		for _, g := range splitFormsTop(f) {
			if strings.HasPrefix(g, "(define-fun") {
				scan(g)
			}
		}
	}
	for _, f := range forms {
		scan(f)
	}
	return m
}

// smtStringValue decodes an SMT-LIB string literal into Go bytes.
func smtStringValue(lit string) (string, bool) {
	lit = strings.TrimSpace(lit)
	if len(lit) < 2 || lit[0] != '"' || lit[len(lit)-1] != '"' {
		return "", false
	}
	s := lit[1 : len(lit)-1]
	s = strings.ReplaceAll(s, "\"\"", "\"")
	var b strings.Builder
	for i := 0; i < len(s); {
		if strings.HasPrefix(s[i:], "\\u{") {
			j := strings.IndexByte(s[i:], '}')
			if j > 0 {
				n, err := strconv.ParseInt(s[i+3:i+j], 16, 32)
				if err == nil && n < 256 {
					b.WriteByte(byte(n))
					i += j + 1
					continue
				}
				if err == nil {
					b.WriteRune(rune(n))
					i += j + 1
					continue
				}
			}
		}
		if strings.HasPrefix(s[i:], "\\x") && i+4 <= len(s) {
			n, err := strconv.ParseInt(s[i+2:i+4], 16, 32)
			if err == nil {
				b.WriteByte(byte(n))
				i += 4
				continue
			}
		}
		b.WriteByte(s[i])
		i++
	}
	return b.String(), true
}

func (ex *Exec) writeReplay(P string, a *obAgg, repo string) string {
	dir := filepath.Join(verifDir, "replays", P)
	os.MkdirAll(dir, 0o755)
	f := a.Failed[0]
	// prefer an instance with a model
	for _, x := range a.Failed {
		if x.Status == "sat" {
			f = x
			break
		}
	}
	if f.Status != "sat" {
		for _, x := range a.Failed {
			if x.Hunted {
				f = x
				break
			}
		}
	}
	rf := ReplayFile{Property: P, Obligation: a.Name, Kind: a.Kind, Clause: a.Text, At: a.Pos, Verdict: f.Status, Solver: f.Solver, Path: f.Trace}
	base := filepath.Join(dir, smtSym(a.Name))
	if f.Script != "" {
		os.WriteFile(base+".smt2", []byte(f.Script), 0o644)
		rf.Script = base + ".smt2"
	}
	reproduced := false
	if f.Status == "sat" || f.Hunted {
		rf.ModelRaw = clip(f.Model, 6000)
		if f.Hunted {
			rf.Verdict = f.Status + " (candidate model from the quantifier-free weakening of the query)"
		}
		model := parseModel(f.Model)
		rf.Model = map[string]string{}
		for k, v := range model {
			if strings.HasPrefix(k, "p.") && len(v) < 400 {
				rf.Model[k] = v
			}
		}
		if tmplDrivers[f.Func] != nil {
			out, ok, testSrc, vals := ex.runTemplateDriver(f, repo, base)
			rf.ReplayOut = clip(out, 4000)
			rf.ReplayTest = testSrc
			rf.Replayed = ok
			reproduced = ok
			for k, v := range vals {
				rf.Model["probe."+k] = v
			}
		} else if drv := replayDrivers[f.Func]; drv != nil {
			out, ok, testSrc := drv(ex, f, model, repo, base)
			rf.ReplayOut = clip(out, 4000)
			rf.ReplayTest = testSrc
			rf.Replayed = ok
			reproduced = ok
		}
	} else {
		rf.ModelRaw = "no model: solvers answered " + f.Solver
	}
	if !reproduced {
		if sc := scenarioFor(a.Name); sc != "" {
			out, ok := runOverlayTest(repo, sc)
			rf.ReplayOut = clip(out, 4000)
			rf.ReplayTest = sc
			rf.Replayed = ok
			reproduced = ok
		}
	}
	data, _ := json.MarshalIndent(rf, "", " ")
	path := base + ".json"
	os.WriteFile(path, data, 0o644)
	line := fmt.Sprintf("VIOLATION property=%s replay=%s", P, path)
	if !reproduced {
		line += " no-failing-input-found"
	}
	return line
}

// replay drivers: function key -> driver turning a model into a Go test run against the real code.
type replayDriver func(ex *Exec, ob *Obligation, model map[string]string, repo, base string) (output string, reproduced bool, testFile string)

var replayDrivers = map[string]replayDriver{}

func cmdReplay(args []string) int {
	if len(args) < 1 {
		fmt.Println("usage: goatvc replay <file.json>")
		return 2
	}
	data, err := os.ReadFile(args[0])
	if err != nil {
		fmt.Println("ERROR", err)
		return 2
	}
	var rf ReplayFile
	if err := json.Unmarshal(data, &rf); err != nil {
		fmt.Println("ERROR", err)
		return 2
	}
	fmt.Printf("obligation: %s\nclause: %s\nat: %s\nsolver verdict: %s (%s)\n", rf.Obligation, rf.Clause, rf.At, rf.Verdict, rf.Solver)
	for k, v := range rf.Model {
		fmt.Printf("  %s = %s\n", k, v)
	}
	if rf.ReplayTest != "" {
		out, ok := runOverlayTest("/repo", rf.ReplayTest)
		fmt.Println(out)
		if ok {
			fmt.Println("replay: reproduced on the real code")
			return 1
		}
		fmt.Println("replay: did not reproduce")
		return 0
	}
	fmt.Println("no executable replay for this obligation (no-failing-input-found)")
	return 0
}

// scenarioFor: a hand-written history under replay/scenarios attached to an obligation by name
// (used when the failing state is reachable only by interference, so no solver model helps).
func scenarioFor(obligation string) string {
	files, _ := filepath.Glob(filepath.Join(verifDir, "replay", "scenarios", "*.go.tmpl"))
	for _, f := range files {
		data, err := os.ReadFile(f)
		if err != nil {
			continue
		}
		for _, l := range strings.SplitN(string(data), "\n", 6) {
			if strings.HasPrefix(l, "// obligation:") && strings.TrimSpace(strings.TrimPrefix(l, "// obligation:")) == obligation {
				return f
			}
		}
	}
	return ""
}
