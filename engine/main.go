package main

import "fmt"

func main() { fmt.Println("goatvc") }
