package main

import (
	"go/token"
	"encoding/json"
	"go/types"

	"flag"
	"fmt"
	"golang.org/x/tools/go/ssa"
	"os"
	"path/filepath"
	"sort"
	"strings"
	"time"
)

var verifDir = "/verif"

func main() {
	if len(os.Args) < 2 {
		fmt.Println("usage: goatvc check|dump|list ...")
		os.Exit(2)
	}
	if d := os.Getenv("VERIF_DIR"); d != "" {
		verifDir = d
	}
	switch os.Args[1] {
	case "check":
		os.Exit(cmdCheck(os.Args[2:]))
	case "dump":
		os.Exit(cmdDump(os.Args[2:]))
	case "list":
		os.Exit(cmdList(os.Args[2:]))
	case "replay":
		os.Exit(cmdReplay(os.Args[2:]))
	case "scenario":
		// goatvc scenario <file.go.tmpl>: run one hand-written history against /repo
		repoDir := "/repo"
		if len(os.Args) > 3 {
			repoDir = os.Args[3] // optional: a scratch copy
		}
		out, ok := runOverlayTest(repoDir, os.Args[2])
		fmt.Println(out)
		if ok {
			fmt.Println("scenario: reproduced on the real code")
			os.Exit(1)
		}
		fmt.Println("scenario: did not reproduce")
		os.Exit(0)
	}
	fmt.Println("unknown command")
	os.Exit(2)
}

func setup(repo string) (*Program, *Specs, error) {
	if err := loadPrelude(filepath.Join(verifDir, "prelude", "prelude.smt2")); err != nil {
		return nil, nil, err
	}
	prog, err := loadProgram(repo)
	if err != nil {
		return nil, nil, err
	}
	specs, err := readSpecs(repo)
	if err != nil {
		return nil, nil, err
	}
	loadTemplateDrivers()
	return prog, specs, nil
}

func cmdList(args []string) int {
	fs := flag.NewFlagSet("list", flag.ExitOnError)
	repo := fs.String("repo", "/repo", "")
	fs.Parse(args)
	prog, specs, err := setup(*repo)
	if err != nil {
		fmt.Println("ERROR", err)
		return 2
	}
	for _, k := range prog.scopeFuncKeys() {
		mark := " "
		if specs.Funcs[k] != nil {
			mark = "*"
		}
		fmt.Println(mark, k)
	}
	return 0
}

// verifyFunc symbolically executes one function under contract and collects obligations.
func (ex *Exec) verifyFunc(key string) error {
	fn := ex.prog.Funcs[key]
	if fn == nil {
		return fmt.Errorf("contract-drift: function %s not found", key)
	}
	sp := ex.specs.Funcs[key]
	ex.curKey = key
	ex.paths = 0
	ex.registerSpecCounters()
	st := &State{ex: ex, heap: map[string]string{}, cnt: map[string]string{}, published: map[string]bool{}, cells: map[string]Val{}}
	var args []Val
	for _, p := range fn.Params {
		args = append(args, ex.symVal(st, p.Type(), "p."+p.Name()))
	}
	var binds []Val
	for _, fv := range fn.FreeVars {
		b := ex.symVal(st, fv.Type(), "fv."+fv.Name())
		if name, ok := resolveCell(fv); ok && b.Arr != "" {
			b.Arr = name
		}
		st.assume("(> " + b.T + " 0)")
		binds = append(binds, b)
	}
	// pre-frame for evaluating requires
	pf := ex.pseudoFrame(fn, key, sp, args, binds, st)
	ex.assumeObjInvs(st, pf, fn, args)
	ex.closureEntry(st, pf, fn, binds, sp, nil, nil)
	if sp != nil {
		for _, l := range sp.Holds {
			// the lock of the receiver is held on entry; its invariant holds
			if len(args) > 0 {
				st.held = append(st.held, LockRef{Key: l, Ref: args[0].T})
				if ls := ex.specs.Locks[l]; ls != nil {
					self := args[0]
					for _, c := range ls.Inv {
						st.assume(ex.evalClause(st, pf, c, map[string]Val{"self": self}))
					}
				}
			}
		}
		for _, c := range sp.Requires {
			st.assume(ex.evalClause(st, pf, c, nil))
		}
		for _, o := range sp.Owns {
			v := ex.evalSpec(st, pf, o, nil)
			st.pinned = append(st.pinned, v.T)
		}
	}
	nRet := 0
	ex.callBody(st, fn, args, binds, 0, true, func(st2 *State, fr *Frame, ret Val) {
		nRet++
		ex.paths++
		if sp != nil {
			for _, c := range sp.Ensures {
				g := ex.evalClause(st2, fr, c, nil)
				ob := ex.oblige(st2, "ensures", key+"/"+c.name(), c.Labels, g, c, ex.posOf(fr.retInstr))
				ex.attachProbes(st2, fr, ob)
				if ob != nil && c.Expr.Op == "bin" && c.Expr.Name == "==>" {
					// cover candidate: the antecedent must be satisfiable on some path, else the clause is vacuous
					ev := &evalCtx{ex: ex, st: st2, fr: fr}
					av := ev.eval(c.Expr.Args[0])
					if len(ev.err) == 0 && av.S == "Bool" && av.T != "false" {
						cv := ex.obligeRaw(st2, "cover", key+"/"+c.name()+fmt.Sprintf("@%d", c.Line), c.Labels, av.T)
						cv.Clause = c
					} else {
						ex.coverSeen[key+"/"+c.name()+fmt.Sprintf("@%d", c.Line)] = ex.coverSeen[key+"/"+c.name()+fmt.Sprintf("@%d", c.Line)] || false
					}
				}
			}
			for _, l := range sp.Holds {
				found := false
				for _, h := range st2.held {
					if h.Key == l {
						found = true
					}
				}
				if !found {
					ex.notes["HOLDS-RELEASED "+key+" "+l] = true
				}
			}
		}
		if sp != nil && sp.HasMod {
			ex.checkFrame(st2, fr, sp, key)
		}
		if sp != nil && sp.TrustResult != "" {
			ex.use("assumed: objinv(result) of " + key + ": " + sp.TrustResult)
		} else {
			ex.resultObjInvs(st2, fr, key, ret, true)
		}
		if len(st2.held) > 0 && (sp == nil || len(sp.Holds) == 0) {
			ex.lockLeak(st2, fr)
		}
		// reachability canary: this return must be reachable on some path
		ob := ex.obligeRaw(st2, "canary", key+"/canary", nil, "false")
		ob.Pos = ex.posOf(fr.retInstr)
	})
	ex.retCount[key] = nRet
	// every at-call clause of a verified function must have met at least one call site
	ex.checkAtCallCoverage(key, sp)
	return nil
}

func (ex *Exec) checkAtCallCoverage(key string, sp *FuncSpec) {
	if sp == nil {
		return
	}
	for _, c := range sp.AtCall {
		if ex.propFilter != nil && !ex.propFilter(c.Labels) {
			continue
		}
		if !ex.covers[key+"/atcall/"+c.name()+"/"+c.Callee] {
			ex.specError("%s:%d: atcall clause %s never matched a call to %q in %s (contract drift)", c.File, c.Line, c.name(), c.Callee, key)
		}
	}
}

func (ex *Exec) lockLeak(st *State, fr *Frame) {
	ex.oblige(st, "discipline", fr.key+"#lock-held-at-return", []string{"C15.discipline", "C11.lock_released_on_every_path"}, "false", nil, ex.posOf(fr.retInstr))
}

func (ex *Exec) obligeRaw(st *State, kind, name string, labels []string, goal string) *Obligation {
	ob := &Obligation{ID: len(ex.obls), Func: ex.curKey, Name: name, Kind: kind, Labels: labels, Goal: goal,
		PC: st.pc[:len(st.pc):len(st.pc)], Trace: st.trace[:len(st.trace):len(st.trace)]}
	ex.obls = append(ex.obls, ob)
	return ob
}

// ---------- known findings ----------

type Finding struct {
	Property   string `json:"property"`
	Obligation string `json:"obligation"`
	Status     string `json:"status"` // open | fixed
	What       string `json:"what"`
	Commit     string `json:"commit,omitempty"`
	Witness    string `json:"witness,omitempty"`
}

func readFindings() []Finding {
	var out []Finding
	data, err := os.ReadFile(filepath.Join(verifDir, "known_findings.jsonl"))
	if err != nil {
		return nil
	}
	for _, l := range strings.Split(string(data), "\n") {
		l = strings.TrimSpace(l)
		if l == "" || strings.HasPrefix(l, "#") {
			continue
		}
		var f Finding
		if json.Unmarshal([]byte(l), &f) == nil {
			out = append(out, f)
		}
	}
	return out
}

// ---------- check ----------

type obAgg struct {
	Name      string
	Kind      string
	Labels    []string
	Instances int
	Failed    []*Obligation
	Solvers   map[string]int
	Ms        int64
	Trivial   int
	Pos       string
	Text      string
}

func cmdCheck(args []string) int {
	fs := flag.NewFlagSet("check", flag.ExitOnError)
	repo := fs.String("repo", "/repo", "")
	prop := fs.String("prop", "", "property id")
	tier := fs.String("tier", "quick", "")
	only := fs.String("func", "", "restrict to one function (debug)")
	verbose := fs.Bool("v", false, "")
	save := fs.String("save", "", "directory to save failing scripts")
	noEvidence := fs.Bool("no-evidence", false, "")
	fs.Parse(args)
	t0 := time.Now()
	seed := 0
	if s := os.Getenv("VERIF_SEED"); s != "" {
		fmt.Sscan(s, &seed)
	}
	prog, specs, err := setup(*repo)
	if err != nil {
		fmt.Println("ERROR setup:", err)
		return 2
	}
	findings := readFindings()
	open := map[string]bool{}
	for _, f := range findings {
		if f.Status == "open" {
			open[f.Obligation] = true
		}
	}
	P := *prop
	// functions that carry clauses of this property
	var keys []string
	for k, sp := range specs.Funcs {
		if *only != "" && k != *only {
			continue
		}
		if sp.Trusted {
			continue
		}
		if specHasProp(sp, P) {
			// an inline closure is verified inside its parent, never on its own
			if fn := prog.Funcs[k]; fn != nil && sp.Inline && fn.Parent() != nil {
				for fn.Parent() != nil {
					fn = fn.Parent()
				}
				k = prog.Keys[fn]
			}
			keys = append(keys, k)
		}
	}
	ex := newExec(prog, specs)
	if *only == "" {
		have := map[string]bool{}
		for _, k := range keys {
			have[k] = true
		}
		for _, k := range ex.funcsUsingSharedSpecs(P) {
			if !have[k] {
				keys = append(keys, k)
			}
		}
	}
	ex.activeClass = map[int]bool{1: true} // ctx.done is built in: nothing is ever sent on a Done channel
	if P == "C15" || P == "ALL" || *only != "" {
		for _, cc := range specs.ClassList {
			ex.activeClass[cc.ID] = true
		}
	} else {
		keys = ex.closeRun(keys)
	}
	sort.Strings(keys)
	ex.openFindings = open
	ex.disciplineOn = P == "C15"
	ex.inRun = map[string]bool{}
	for _, k := range keys {
		ex.inRun[k] = true
	}
	if P == "C15" || P == "ALL" {
		ex.inRun = nil // every function in scope is verified
	}
	ex.propFilter = func(labels []string) bool {
		for _, l := range labels {
			if l == "*" || l == P || strings.HasPrefix(l, P+".") || P == "ALL" {
				return true
			}
		}
		return false
	}
	drift := false
	if P == "C15" || P == "ALL" {
		keys = nil
		for _, k := range prog.scopeFuncKeys() {
			if *only != "" && k != *only {
				continue
			}
			if sp := specs.Funcs[k]; sp != nil && sp.Inline && prog.Funcs[k].Parent() != nil {
				continue // verified inside its parent
			}
			keys = append(keys, k)
		}
	}
	for _, k := range keys {
		tf := time.Now()
		defer func(k string) {}(k)
		if err := ex.verifyFunc(k); err != nil {
			fmt.Println("ERROR", err)
			drift = true
		}
		if d := time.Since(tf); d > 3*time.Second && *verbose {
			fmt.Printf("  slow symbolic execution: %s %.1fs (%d paths)\n", k, d.Seconds(), ex.paths)
		}
	}
	if P == "C15" || P == "ALL" {
		ex.objinvStability()
	}
	if P == "C11" || P == "C15" || P == "ALL" {
		// lock order: one obligation per cycle in "acquired while held" (collected over all verified functions)
		for from, tos := range ex.lockEdges {
			for to, where := range tos {
				ex.notes[fmt.Sprintf("LOCK-ORDER %s held while %s is acquired (%s)", from, to, where)] = true
			}
		}
		lst := &State{ex: ex, heap: map[string]string{}, cnt: map[string]string{}, published: map[string]bool{}}
		ex.curKey = "lock-order"
		cycles := ex.lockOrderCycles()
		if len(cycles) == 0 {
			ob := ex.obligeRaw(lst, "lock-order", "lock-order/acyclic", []string{"C11.lock_order_acyclic", "C15.lock_order_acyclic"}, "true")
			ob.Trivial = false
		}
		for i, c := range cycles {
			ex.obligeRaw(lst, "lock-order", fmt.Sprintf("lock-order/cycle#%d: %s", i, c), []string{"C11.lock_order_acyclic", "C15.lock_order_acyclic"}, "false")
		}
	}
	// lemmas
	for _, lm := range specs.Lemmas {
		has := false
		for _, l := range lm.Labels {
			if l == P || strings.HasPrefix(l, P+".") {
				has = true
			}
		}
		if has {
			ex.lemma(lm)
		}
	}
	if ex.specErrs > 0 {
		for n := range ex.notes {
			if strings.HasPrefix(n, "SPEC-ERROR") {
				fmt.Println(n)
			}
		}
		fmt.Println("ERROR contract-drift: spec errors (see above)")
		drift = true
	}
	cfg := SolveCfg{T1: 10 * time.Second, T2: 12 * time.Second, Seed: seed, Workers: 8, SaveDir: *save}
	if *tier == "thorough" {
		cfg.T1, cfg.T2 = 30*time.Second, 30*time.Second
	}
	var real, canaries, covers []*Obligation
	for _, ob := range ex.obls {
		switch ob.Kind {
		case "canary":
			canaries = append(canaries, ob)
		case "cover":
			covers = append(covers, ob)
		default:
			real = append(real, ob)
		}
	}
	ex.decideAll(real, cfg)
	// canaries: at least one return of each function must be reachable (not unsat)
	ccfg := cfg
	ccfg.T1, ccfg.T2 = 2*time.Second, 2*time.Second
	vacuous := []string{}
	byFunc := map[string][]*Obligation{}
	bySite := map[string][]*Obligation{}
	for _, c := range canaries {
		byFunc[c.Func] = append(byFunc[c.Func], c)
		if c.Pos != "" {
			bySite[c.Func+" return at "+c.Pos] = append(bySite[c.Func+" return at "+c.Pos], c)
		}
	}
	type vres struct {
		k   string
		vac bool
	}
	vch := make(chan vres, len(keys))
	sem := make(chan struct{}, 8)
	nv := 0
	for _, k := range keys {
		cs := byFunc[k]
		if len(cs) == 0 {
			continue
		}
		nv++
		go func(k string, cs []*Obligation) {
			sem <- struct{}{}
			defer func() { <-sem }()
			reach := false
			// check up to a handful of returns; stop at the first reachable one
			for i, c := range cs {
				if i >= 6 {
					break
				}
				c.Goal = "true"
				if ex.coverSat(c, ccfg) != "unsat" {
					reach = true
					break
				}
			}
			vch <- vres{k, !reach && len(cs) <= 6}
		}(k, cs)
	}
	for i := 0; i < nv; i++ {
		if r := <-vch; r.vac {
			vacuous = append(vacuous, r.k)
		}
	}
	// every return statement must be reachable on some path under the assumptions made before it
	// (an infeasible path proves anything: e.g. a return behind a call whose out-parameter the engine
	// wrongly kept unchanged)
	if os.Getenv("GOATVC_NO_SITE_CANARY") == "" {
		type sres struct {
			k   string
			vac bool
		}
		sch := make(chan sres, len(bySite))
		for k, cs := range bySite {
			go func(k string, cs []*Obligation) {
				sem <- struct{}{}
				defer func() { <-sem }()
				reach := false
				for i, c := range cs {
					if i >= 4 {
						reach = true // too many paths to this return to try them all: not reported
						break
					}
					c.Goal = "true"
					if ex.coverSat(c, ccfg) != "unsat" {
						reach = true
						break
					}
				}
				sch <- sres{k, !reach}
			}(k, cs)
		}
		deadBy := map[string][]string{}
		for range bySite {
			if r := <-sch; r.vac {
				fk := strings.SplitN(r.k, " return at ", 2)[0]
				deadBy[fk] = append(deadBy[fk], r.k)
			}
		}
		for fk, sites := range deadBy {
			allowed := 0
			if sp := specs.Funcs[fk]; sp != nil {
				allowed = sp.DeadReturns
			}
			if len(sites) > allowed {
				vacuous = append(vacuous, sites...)
			}
		}
	}
	sort.Strings(vacuous)
	// clause covers: every implication-shaped postcondition needs a path on which its antecedent can hold
	uncovered := ex.checkCovers(covers, ccfg)
	for _, u := range uncovered {
		vacuous = append(vacuous, "clause "+u)
	}

	// aggregate
	aggs := map[string]*obAgg{}
	var names []string
	for _, ob := range real {
		a := aggs[ob.Name]
		if a == nil {
			a = &obAgg{Name: ob.Name, Kind: ob.Kind, Labels: ob.Labels, Solvers: map[string]int{}, Pos: ob.Pos}
			if ob.Clause != nil {
				a.Text = ob.Clause.Text
			}
			aggs[ob.Name] = a
			names = append(names, ob.Name)
		}
		a.Instances++
		a.Ms += ob.Ms
		if ob.Trivial {
			a.Trivial++
		}
		if ob.Status == "unsat" {
			a.Solvers[ob.Solver]++
		} else {
			a.Failed = append(a.Failed, ob)
		}
	}
	sort.Strings(names)
	violations := 0
	var knownLines, violLines []string
	var witnessRuns []map[string]interface{}
	corpusMiss := false
	discharged := 0
	var perOb []map[string]interface{}
	var solverMs int64
	for _, n := range names {
		a := aggs[n]
		solverMs += a.Ms
		status := "discharged"
		if len(a.Failed) > 0 {
			if open[n] {
				status = "known-finding"
				what := n
				best := ""
				for _, f := range findings {
					if f.Obligation == n && f.Status == "open" && (best == "" || f.Property == P) {
						best = f.What
					}
				}
				if best != "" {
					what = n + " -- " + best
				}
				knownLines = append(knownLines, fmt.Sprintf("KNOWN-FINDING: property=%s %s", P, what))
			} else {
				status = "FAILED"
				violations++
				rp := ex.writeReplay(P, a, *repo)
				violLines = append(violLines, rp)
			}
		} else {
			discharged++
		}
		var solvers []string
		for s, c := range a.Solvers {
			solvers = append(solvers, fmt.Sprintf("%s:%d", s, c))
		}
		sort.Strings(solvers)
		perOb = append(perOb, map[string]interface{}{"name": n, "kind": a.Kind, "status": status, "instances": a.Instances, "trivially_true_instances": a.Trivial, "solvers": strings.Join(solvers, " "), "ms": a.Ms, "at": a.Pos, "clause": a.Text})
		if *verbose || status == "FAILED" {
			fmt.Printf("  %-14s %s  [%d paths; %s; %dms]\n", status, n, a.Instances, strings.Join(solvers, " "), a.Ms)
			if *verbose {
				for _, ob := range real {
					if ob.Name == n && !ob.Trivial && ob.Ms > 1500 {
						fmt.Printf("      slow instance #%d %s %s %dms\n", ob.ID, ob.Status, ob.Solver, ob.Ms)
					}
				}
			}
			if status == "FAILED" && len(a.Failed) > 0 {
				f := a.Failed[0]
				fmt.Printf("      first failing path (%s, %s): %s\n", f.Status, f.Solver, strings.Join(tail(f.Trace, 12), " ; "))
				if *verbose {
					for _, ff := range a.Failed {
						fmt.Printf("      FAILING #%d: %s\n", ff.ID, strings.Join(ff.Trace, " ; "))
					}
				}
			}
		}
	}
	// open findings that no longer fail are reported (not an error)
	for _, f := range findings {
		if f.Status == "open" && f.Property == P {
			if a, ok := aggs[f.Obligation]; ok && len(a.Failed) == 0 {
				fmt.Printf("NOTE: known finding %s no longer fails (obligation discharged)\n", f.Obligation)
			}
			if _, ok := aggs[f.Obligation]; !ok {
				fmt.Printf("NOTE: known finding %s: obligation not generated in this run\n", f.Obligation)
			}
		}
	}
	for _, l := range knownLines {
		fmt.Println(l)
	}
	if *tier == "thorough" {
		// thorough: every open known finding of this property must still be reproduced by its witness
		for _, f := range findings {
			if f.Status != "open" || f.Property != P || f.Witness == "" {
				continue
			}
			out, ok := runOverlayTest(*repo, filepath.Join(verifDir, f.Witness))
			if ok {
				fmt.Printf("KNOWN-FINDING-WITNESS reproduced on the real code: %s (%s)\n", f.Obligation, f.Witness)
			} else {
				fmt.Printf("NOTE: witness of known finding %s did NOT reproduce (%s): %s\n", f.Obligation, f.Witness, clip(strings.ReplaceAll(out, "\n", " | "), 300))
			}
			witnessRuns = append(witnessRuns, map[string]interface{}{"obligation": f.Obligation, "witness": f.Witness, "reproduced": ok})
		}
	}
	for _, l := range violLines {
		fmt.Println(l)
	}
	if P == "C15" && len(ex.uncovered) > 0 {
		var u []string
		for k := range ex.uncovered {
			u = append(u, k)
		}
		sort.Strings(u)
		fmt.Println("UNCOVERED fields (no discipline declared; reported, not a violation):", strings.Join(u, " "))
	}
	var corpus map[string]interface{}
	if *tier == "thorough" && *only == "" && *repo == "/repo" && violations == 0 {
		ran, caught, missed, skipped := runCorpus(*repo, P)
		corpus = map[string]interface{}{"changes_applied_to_scratch_copies": ran, "reported_as_violation": caught, "missed": missed, "skipped": skipped}
		fmt.Printf("must-fail corpus for %s: %d property-breaking changes applied to scratch copies, %d reported as violations\n", P, ran, caught)
		for _, m := range missed {
			fmt.Println("ERROR corpus: change not detected:", m)
			corpusMiss = true
		}
	}
	var noteList []string
	abstracted := false
	for n := range ex.notes {
		noteList = append(noteList, n)
		if strings.HasPrefix(n, "UNSUPPORTED") || strings.HasPrefix(n, "PATHCAP") {
			abstracted = true
		}
	}
	sort.Strings(noteList)
	if *verbose {
		for _, n := range noteList {
			fmt.Println("  note:", n)
		}
	}
	exit := 0
	if violations > 0 {
		exit = 1
	}
	if drift || len(real) == 0 {
		if len(real) == 0 {
			fmt.Println("ERROR no obligations generated for", P)
		}
		if exit == 0 {
			exit = 2
		}
	}
	if corpusMiss && exit == 0 {
		exit = 2
	}
	if len(vacuous) > 0 {
		fmt.Println("ERROR vacuous: no reachable return in", strings.Join(vacuous, ", "))
		if exit == 0 {
			exit = 2
		}
	}
	if !*noEvidence && *only == "" {
		var used []string
		for u := range ex.used {
			used = append(used, u)
		}
		sort.Strings(used)
		var assumed []string
		for _, u := range used {
			if strings.HasPrefix(u, "external:") {
				nm := strings.TrimPrefix(u, "external:")
				assumed = append(assumed, "ASSUMED dependency contract "+nm+": "+externalDocs[nm])
			}
		}
		samples := []interface{}{}
		for i, ob := range real {
			if !ob.Trivial && len(samples) < 3 {
				samples = append(samples, map[string]interface{}{"obligation": ob.Name, "goal_smt": clip(ob.Goal, 600), "path": tail(ob.Trace, 10), "path_condition_size": len(ob.PC), "status": ob.Status, "solver": ob.Solver})
			}
			_ = i
		}
		if len(samples) == 0 && len(real) > 0 {
			samples = append(samples, map[string]interface{}{"obligation": real[0].Name, "goal_smt": clip(real[0].Goal, 600)})
		}
		ev := map[string]interface{}{
			"property_id": P, "tier": *tier, "seed": seed, "level": "proof",
			"coverage": map[string]interface{}{
				"obligations":              len(names) - len(knownLines),
				"known_finding_obligations": len(knownLines),
				"discharged":               discharged,
				"obligation_instances":     len(real),
				"checker_cmd":              "bin/goatvc check -prop " + P + " -tier " + *tier,
				"trusted_base":             append([]string{"go/packages+go/types+go/ssa (x/tools v0.29.0) translate /repo faithfully", "SMT solvers z3 5.1.0 / z3 4.8.12 / cvc5 1.0.3 are sound on unsat", "goatvc's own symbolic executor and SMT encoding (self-tested by the must-fail corpus in selftest/)"}, assumed...),
				"functions_under_contract": keys,
				"per_obligation":           perOb,
				"solver_time_s":            float64(solverMs) / 1000.0,
				"samples":                  samples,
				"known_findings":           knownLines,
				"known_finding_witness_runs": witnessRuns,
				"must_fail_corpus":         corpus,
				"engine_notes":             noteList,
				"abstracted":               abstracted,
				"uses":                     used,
				"vacuity":                  map[string]interface{}{"return_reachability_canaries": len(canaries), "vacuous_functions": vacuous},
				"paths":                    ex.totalPaths(),
			},
			"assumptions": ex.assumptionList(P),
			"wall_s":      time.Since(t0).Seconds(),
			"violations":  violations,
		}
		os.MkdirAll(filepath.Join(verifDir, "evidence"), 0o755)
		data, _ := json.MarshalIndent(ev, "", " ")
		os.WriteFile(filepath.Join(verifDir, "evidence", P+".json"), data, 0o644)
	}
	fmt.Printf("%s: %d obligations (%d instances) over %d functions, %d discharged, %d known findings, %d violations, %.1fs\n",
		P, len(names), len(real), len(keys), discharged, len(knownLines), violations, time.Since(t0).Seconds())
	return exit
}

func (ex *Exec) totalPaths() int { return ex.pathEnds }

func tail(s []string, n int) []string {
	if len(s) > n {
		return s[len(s)-n:]
	}
	return s
}

func clip(s string, n int) string {
	if len(s) > n {
		return s[:n] + "..."
	}
	return s
}

func specHasProp(sp *FuncSpec, P string) bool {
	for _, cs := range [][]*Clause{sp.Requires, sp.Ensures, sp.AtCall} {
		for _, c := range cs {
			if c.hasProp(P) {
				return true
			}
		}
	}
	for _, cs := range sp.LoopInv {
		for _, c := range cs {
			if c.hasProp(P) {
				return true
			}
		}
	}
	if sp.NoPanic != nil && sp.NoPanic.hasProp(P) {
		return true
	}
	if sp.CtxAware != nil && sp.CtxAware.hasProp(P) {
		return true
	}
	if sp.NonBlock != nil && sp.NonBlock.hasProp(P) {
		return true
	}
	for _, c := range sp.Escape {
		if c.hasProp(P) {
			return true
		}
	}
	return false
}

func (ex *Exec) assumptionList(P string) []string {
	out := []string{
		"A-ssa: go/packages, go/types, go/ssa are faithful to the Go semantics of /repo's current working tree",
		"A-smt: the SMT solvers are sound when they answer unsat",
		"A-int: integers are mathematical with explicit two's-complement wrap at every sized arithmetic result and conversion; bit operations unsupported",
		"A-str: strings are SMT strings restricted to bytes; strings.ToLower is an uninterpreted idempotent length-preserving function (ASCII facts only)",
		"A-slice: slices have value semantics (no aliasing-visible mutation through shared backing arrays; none occurs in scope)",
		"A-conc: monitor rule for sync.Mutex, channel message invariants, monotone closed/ctx-done facts are sound for the Go memory model; partial correctness only (no liveness)",
		"F1: calls into dependencies / through interfaces and function values do not write goat-owned heap objects except as their assumed contract states",
		"generated protobuf getters are summarised as nil-safe field reads (shape-checked on every run)",
	}
	return out
}

func cmdDump(args []string) int {
	fs := flag.NewFlagSet("dump", flag.ExitOnError)
	repo := fs.String("repo", "/repo", "")
	fn := fs.String("func", "", "")
	all := fs.Bool("all", false, "dump scripts for all obligations")
	fs.Parse(args)
	prog, specs, err := setup(*repo)
	if err != nil {
		fmt.Println("ERROR", err)
		return 2
	}
	ex := newExec(prog, specs)
	ex.dbgModSet(*fn)
	if err := ex.verifyFunc(*fn); err != nil {
		fmt.Println("ERROR", err)
		return 2
	}
	for _, ob := range ex.obls {
		fmt.Printf("--- #%d %s [%s] %v at %s\n   goal: %s\n   trace: %s\n", ob.ID, ob.Name, ob.Kind, ob.Labels, ob.Pos, clip(ob.Goal, 400), strings.Join(tail(ob.Trace, 20), " ; "))
		if *all {
			fmt.Println(ex.script(ob, true))
		}
	}
	var ns []string
	for n := range ex.notes {
		ns = append(ns, n)
	}
	sort.Strings(ns)
	for _, n := range ns {
		fmt.Println("note:", n)
	}
	var us []string
	for n := range ex.used {
		us = append(us, n)
	}
	sort.Strings(us)
	for _, n := range us {
		fmt.Println("used:", n)
	}
	return 0
}

// assumeObjInvs: object invariants of pointer-typed parameters hold on entry; a method's receiver is non-nil.
func (ex *Exec) assumeObjInvs(st *State, pf *Frame, fn *ssa.Function, args []Val) {
	for i, p := range fn.Params {
		if i >= len(args) {
			break
		}
		el := derefType(p.Type())
		if el == nil {
			continue
		}
		invs := ex.specs.ObjInvs[typeKey(el)]
		if len(invs) == 0 {
			continue
		}
		isRecv := i == 0 && fn.Signature.Recv() != nil
		for _, c := range invs {
			g := ex.evalClause(st, pf, c, map[string]Val{"self": args[i]})
			if isRecv {
				st.assume("(distinct " + args[i].T + " 0)")
				st.assume(g)
			} else {
				st.assume(smtImp("(distinct "+args[i].T+" 0)", g))
			}
		}
	}
}

// obligeObjInvs: at a call into a function under contract the arguments satisfy their object invariants.
func (ex *Exec) obligeObjInvs(st *State, fr *Frame, pf *Frame, fn *ssa.Function, key string, ord int, args []Val, instr ssa.Instruction) {
	for i, p := range fn.Params {
		if i >= len(args) {
			break
		}
		el := derefType(p.Type())
		if el == nil {
			continue
		}
		invs := ex.specs.ObjInvs[typeKey(el)]
		isRecv := i == 0 && fn.Signature.Recv() != nil
		for _, c := range invs {
			g := ex.evalClause(st, pf, c, map[string]Val{"self": args[i]})
			if isRecv {
				g = smtAnd("(distinct "+args[i].T+" 0)", g)
			} else {
				g = smtImp("(distinct "+args[i].T+" 0)", g)
			}
			ex.oblige(st, "objinv", fmt.Sprintf("%s/call.%s#%d.objinv.%s.%s", fr.key, key, ord, p.Name(), c.name()), c.Labels, g, c, ex.posOf(instr))
		}
	}
}

// funcsUsingSharedSpecs: functions that must be verified for property P although their own
// contract does not mention it, because they take a lock whose invariant carries P or send on
// channels while a channel-class invariant carries P.
func (ex *Exec) funcsUsingSharedSpecs(P string) []string {
	lockKeys := map[string]bool{}
	for k, ls := range ex.specs.Locks {
		for _, c := range ls.Inv {
			if c.hasProp(P) {
				lockKeys[k] = true
			}
		}
	}
	classP := false
	if P == "C11" {
		// every function that takes a declared lock is a candidate for leaving it held
		for k := range ex.specs.Locks {
			lockKeys[k] = true
		}
		classP = true // every send is a candidate for "blocking while holding a teardown lock"
	}
	fieldP := map[string]bool{}
	for k, fsp := range ex.specs.Fields {
		for _, l := range fsp.Labels {
			if l == P || strings.HasPrefix(l, P+".") {
				fieldP["H."+k] = true
			}
		}
	}
	if len(lockKeys) == 0 && !classP && len(fieldP) == 0 {
		return nil
	}
	var out []string
	for _, k := range ex.prog.scopeFuncKeys() {
		fn := ex.prog.Funcs[k]
		if sp := ex.specs.Funcs[k]; sp != nil && sp.Trusted {
			continue
		}
		hit := false
		for _, b := range fn.Blocks {
			for _, in := range b.Instrs {
				switch x := in.(type) {
				case *ssa.FieldAddr:
					if len(fieldP) > 0 {
						if r, p, ok := staticRoot(x); ok && fieldP["H."+r+"."+strings.TrimSuffix(p, ".")] {
							hit = true
						}
					}
				case *ssa.Send:
					if classP {
						hit = true
					}
				case *ssa.MakeChan:
					// channel classes are proved at every store of a channel into the heap
					if classP {
						hit = true
					}
				case *ssa.Store:
					if classP && containsChan(x.Val.Type(), 0) {
						hit = true
					}
				case *ssa.MapUpdate:
					if classP && containsChan(x.Value.Type(), 0) {
						hit = true
					}
				case *ssa.Select:
					if classP {
						for _, s := range x.States {
							if s.Dir == types.SendOnly {
								hit = true
							}
						}
					}
				case ssa.CallInstruction:
					c := x.Common()
					if f := c.StaticCallee(); f != nil && (f.String() == "(*sync.Mutex).Lock" || f.String() == "(*sync.Mutex).Unlock") {
						if r, p, ok := staticRoot(c.Args[0]); ok && lockKeys[r+"."+strings.TrimSuffix(p, ".")] {
							hit = true
						}
					}
				}
			}
		}
		if hit {
			// closures without a contract of their own are verified inline in their parent when
			// they are called there; goroutine bodies and stored closures are not, so they are also
			// verified on their own
			if fn.Parent() != nil && ex.specs.Funcs[ex.prog.Keys[fn]] == nil {
				out = append(out, ex.prog.Keys[fn])
			}
			for fn.Parent() != nil && (ex.specs.Funcs[ex.prog.Keys[fn]] == nil || ex.specs.Funcs[ex.prog.Keys[fn]].Inline) {
				fn = fn.Parent()
			}
			out = append(out, ex.prog.Keys[fn])
		}
	}
	seen := map[string]bool{}
	var uniq []string
	for _, k := range out {
		if k != "" && !seen[k] {
			seen[k] = true
			uniq = append(uniq, k)
		}
	}
	return uniq
}

// closureEntry: facts about captured variables. With oblige == nil they are assumed (closure
// verified on its own); otherwise they are proved at the MakeClosure site in the parent.
func (ex *Exec) closureEntry(st *State, pf *Frame, fn *ssa.Function, binds []Val, sp *FuncSpec, parent *Frame, instr ssa.Instruction) {
	if len(fn.FreeVars) == 0 {
		return
	}
	prove := parent != nil
	key := ex.prog.Keys[fn]
	if !prove && sp != nil && sp.Once {
		ex.onceEntry(st, fn, binds, key)
	}
	for i, fv := range fn.FreeVars {
		if i >= len(binds) {
			break
		}
		cellT := derefType(fv.Type()) // type of the captured variable
		el := derefType(cellT)
		if el == nil {
			continue
		}
		invs := ex.specs.ObjInvs[typeKey(el)]
		if len(invs) == 0 {
			continue
		}
		v := ex.load(st, binds[i])
		for _, c := range invs {
			g := smtAnd("(distinct "+v.T+" 0)", ex.evalClause(st, pf, c, map[string]Val{"self": v}))
			if prove {
				ex.oblige(st, "objinv", fmt.Sprintf("%s/closure.%s.objinv.%s.%s", parent.key, key, fv.Name(), c.name()), c.Labels, g, c, ex.posOf(instr))
			} else {
				st.assume(g)
			}
		}
	}
	if sp != nil {
		for _, c := range sp.Captures {
			g := ex.evalClause(st, pf, c, nil)
			if prove {
				ex.oblige(st, "captures", fmt.Sprintf("%s/closure.%s.%s", parent.key, key, c.name()), ex.calleeLabels(c, key), g, c, ex.posOf(instr))
			} else {
				st.assume(g)
			}
		}
	}
}

// registerSpecCounters: every counter named by ncalls("...") in any contract exists from the
// start, so that wildcard havocs (loops, calls) cover it.
func (ex *Exec) registerSpecCounters() {
	if ex.countersRegistered {
		return
	}
	ex.countersRegistered = true
	var walk func(e *SExpr)
	walk = func(e *SExpr) {
		if e == nil {
			return
		}
		if e.Op == "call" && e.Name == "ncalls" && len(e.Args) == 1 && e.Args[0].Op == "str" {
			k := e.Args[0].Str
			if _, ok := ex.cntInit[k]; !ok {
				c := "cnt." + smtSym(k) + "_0"
				ex.cntInit[k] = c
				ex.sorts[c] = "Int"
			}
		}
		for _, a := range e.Args {
			walk(a)
		}
	}
	for _, sp := range ex.specs.Funcs {
		for _, cs := range [][]*Clause{sp.Requires, sp.Ensures, sp.AtCall, sp.Captures} {
			for _, c := range cs {
				walk(c.Expr)
			}
		}
		for _, cs := range sp.LoopInv {
			for _, c := range cs {
				walk(c.Expr)
			}
		}
	}
}

// checkFrame: a declared "modifies" clause is proved, not trusted: everything the body may have
// written (syntactic over-approximation) but that the clause does not list is unchanged at return.
func (ex *Exec) checkFrame(st *State, fr *Frame, sp *FuncSpec, key string) {
	declared := map[string]bool{}
	for _, m := range sp.Modifies {
		declared[m] = true
	}
	labels := ex.allLabels(sp)
	ms := ex.funcModSet(fr.fn)
	okCnt := func(c string) bool {
		for d := range declared {
			if !strings.HasPrefix(d, "cnt:") {
				continue
			}
			dk := strings.TrimPrefix(d, "cnt:")
			if dk == c || (strings.HasSuffix(dk, "*") && strings.HasPrefix(c, strings.TrimSuffix(dk, "*"))) {
				return true
			}
		}
		return false
	}
	for _, c := range ex.expandCounters(st, ms) {
		if okCnt(c) || !frameCounter(c) {
			continue
		}
		now := st.counter(c)
		was, ok := fr.entryCnt[c]
		if !ok {
			was = ex.cntInit[c]
		}
		if now == was {
			continue
		}
		ex.oblige(st, "frame", key+"/frame.cnt."+smtSym(c), labels, smtEq(now, was), nil, ex.posOf(fr.retInstr))
	}
	for _, a := range ms.arrays() {
		if declared[a] || a == "closed" || a == "ctxdone" || strings.HasPrefix(a, "chlen") || strings.HasPrefix(a, "visited.") || strings.HasPrefix(a, "arr.") || strings.HasPrefix(a, "cell.") {
			continue
		}
		if !st.dirty[a] {
			continue // only objects allocated by this call were written
		}
		es, known := ex.heapSort[a]
		if !known {
			continue
		}
		now := st.arr(a, es)
		was := st.arrIn(fr.entryHeap, a, es)
		if now == was {
			continue
		}
		// writes to objects allocated by this call are invisible to the caller: compare on non-negative refs only
		goal := "(forall ((r Int)) (=> (>= r 0) (= (select " + now + " r) (select " + was + " r))))"
		ex.oblige(st, "frame", key+"/frame."+smtSym(a), labels, goal, nil, ex.posOf(fr.retInstr))
	}
}

// frameCounter: ghost counters that contracts talk about (transport traffic, channel operations,
// goroutine starts, calls of functions under contract, user callbacks, stats events). Counters of
// pure library helpers are not part of a frame claim; a contract call havocs them regardless.
func frameCounter(c string) bool {
	for _, p := range []string{"(types.RpcReadWriter)", "send", "recv", "go:", "call:", "HandleRPC", "HandleConn", "fnfield:", "fnvalue:", "cancelfn", "close", "(google.golang.org/grpc/encoding.CodecV2)", "(google.golang.org/grpc/stats.Handler)"} {
		if strings.HasPrefix(c, p) {
			return true
		}
	}
	return false
}

// checkCovers: for each implication-shaped ensures clause, some return path must make the
// antecedent satisfiable; otherwise the clause constrains nothing (vacuous contract).
func (ex *Exec) checkCovers(covers []*Obligation, cfg SolveCfg) []string {
	by := map[string][]*Obligation{}
	var names []string
	for _, c := range covers {
		if _, ok := by[c.Name]; !ok {
			names = append(names, c.Name)
		}
		by[c.Name] = append(by[c.Name], c)
	}
	sort.Strings(names)
	type res struct {
		name    string
		covered bool
	}
	ch := make(chan res, len(names))
	sem := make(chan struct{}, 8)
	for _, n := range names {
		go func(n string) {
			sem <- struct{}{}
			defer func() { <-sem }()
			covered := false
			for i, c := range by[n] {
				if i >= 24 {
					covered = true // too many paths to enumerate cheaply: not judged
					break
				}
				if ex.coverSat(c, cfg) != "unsat" {
					covered = true
					break
				}
			}
			ch <- res{n, covered}
		}(n)
	}
	var out []string
	for range names {
		if r := <-ch; !r.covered {
			out = append(out, r.name)
		}
	}
	sort.Strings(out)
	return out
}

func containsChan(t types.Type, depth int) bool {
	if depth > 3 {
		return false
	}
	switch u := types.Unalias(t).Underlying().(type) {
	case *types.Chan:
		return true
	case *types.Struct:
		for i := 0; i < u.NumFields(); i++ {
			if containsChan(u.Field(i).Type(), depth+1) {
				return true
			}
		}
	}
	return false
}

// addCallers: the preconditions (and captures clauses) of a function verified in this run are
// assumptions of this run, so every in-scope function that calls it (or creates the closure, or
// starts it with go/defer) is verified too; transitively while the added callers have
// preconditions of their own. Callers without a contract contribute only these call-site
// obligations (their entry state is arbitrary).
func (ex *Exec) addCallers(keys []string) []string {
	callers := map[string][]string{}
	for _, k := range ex.prog.scopeFuncKeys() {
		fn := ex.prog.Funcs[k]
		seen := map[string]bool{}
		add := func(t *ssa.Function) {
			if t == nil {
				return
			}
			tk := ex.prog.Keys[t]
			if tk == "" || tk == k || seen[tk] {
				return
			}
			seen[tk] = true
			callers[tk] = append(callers[tk], k)
		}
		for _, b := range fn.Blocks {
			for _, in := range b.Instrs {
				switch x := in.(type) {
				case ssa.CallInstruction:
					add(x.Common().StaticCallee())
					// method values / functions passed as arguments
					for _, a := range x.Common().Args {
						if mc, ok := a.(*ssa.MakeClosure); ok {
							if f, ok := mc.Fn.(*ssa.Function); ok {
								add(f)
							}
						}
					}
				case *ssa.MakeClosure:
					if f, ok := x.Fn.(*ssa.Function); ok {
						add(f)
						// bound method closures (x.m$bound) wrap the method itself
						if f.Synthetic != "" {
							for _, bb := range f.Blocks {
								for _, ii := range bb.Instrs {
									if c, ok := ii.(ssa.CallInstruction); ok {
										add(c.Common().StaticCallee())
									}
								}
							}
						}
					}
				}
			}
		}
	}
	have := map[string]bool{}
	for _, k := range keys {
		have[k] = true
	}
	work := append([]string(nil), keys...)
	for len(work) > 0 {
		k := work[0]
		work = work[1:]
		sp := ex.specs.Funcs[k]
		if sp == nil || sp.Trusted || (len(sp.Requires) == 0 && len(sp.Captures) == 0) {
			continue
		}
		for _, c := range callers[k] {
			top := c
			// an inline closure is verified inside its (outermost non-inline) parent
			for {
				f := ex.prog.Funcs[top]
				csp := ex.specs.Funcs[top]
				if f == nil || f.Parent() == nil || csp == nil || !csp.Inline {
					break
				}
				top = ex.prog.Keys[f.Parent()]
			}
			// a closure without a contract is verified inside its parent when called there; goroutine
			// bodies are verified on their own
			if !have[top] {
				if csp := ex.specs.Funcs[top]; csp != nil && csp.Trusted {
					continue
				}
				have[top] = true
				keys = append(keys, top)
				work = append(work, top)
			}
		}
	}
	return keys
}

// classElemTypes: element types of the channels of each declared class (from the makechan
// clauses that create them).
func (ex *Exec) classElemTypes() map[int]map[string]bool {
	out := map[int]map[string]bool{}
	for k, sp := range ex.specs.Funcs {
		fn := ex.prog.Funcs[k]
		if fn == nil {
			continue
		}
		for _, g := range sp.MakeChans {
			cc := ex.specs.Classes[g.Class]
			if cc == nil {
				continue
			}
			var mcs []*ssa.MakeChan
			for _, b := range fn.Blocks {
				for _, in := range b.Instrs {
					if mc, ok := in.(*ssa.MakeChan); ok {
						mcs = append(mcs, mc)
					}
				}
			}
			sort.SliceStable(mcs, func(i, j int) bool { return mcs[i].Pos() < mcs[j].Pos() })
			if g.Ord < len(mcs) {
				if out[cc.ID] == nil {
					out[cc.ID] = map[string]bool{}
				}
				out[cc.ID][chanElemKey(mcs[g.Ord].Type())] = true
			}
		}
	}
	return out
}

func chanElemKey(t types.Type) string {
	if ct, ok := types.Unalias(t).Underlying().(*types.Chan); ok {
		return types.TypeString(ct.Elem(), nil)
	}
	return ""
}

// chanLeafKeys: element types of the channels contained in a value of type t
func chanLeafKeys(t types.Type, depth int, out map[string]bool) {
	if depth > 3 {
		return
	}
	switch u := types.Unalias(t).Underlying().(type) {
	case *types.Chan:
		out[types.TypeString(u.Elem(), nil)] = true
	case *types.Struct:
		for i := 0; i < u.NumFields(); i++ {
			chanLeafKeys(u.Field(i).Type(), depth+1, out)
		}
	}
}

// closeRun: the set of functions verified in a run is closed under (1) callers of functions
// with preconditions (addCallers) and (2) channel classes: a class is active in the run when some
// verified function receives from a channel of the class's element type (it then assumes the
// class's message invariant); every function that sends on, creates or stores a channel of an
// active class's element type is verified too, because that is where the invariant and the
// class-of-location refinement are proved.
func (ex *Exec) closeRun(keys []string) []string {
	elems := ex.classElemTypes()
	have := map[string]bool{}
	for _, k := range keys {
		have[k] = true
	}
	var allFns func(fn *ssa.Function, f func(*ssa.Function))
	allFns = func(fn *ssa.Function, f func(*ssa.Function)) {
		f(fn)
		for _, a := range fn.AnonFuncs {
			allFns(a, f)
		}
	}
	for {
		n := len(keys)
		keys = ex.addCallers(keys)
		for _, k := range keys {
			have[k] = true
		}
		// classes whose invariant is assumed by a receive in the run
		recvT := map[string]bool{}
		for _, k := range keys {
			fn := ex.prog.Funcs[k]
			if fn == nil {
				continue
			}
			allFns(fn, func(f *ssa.Function) {
				for _, b := range f.Blocks {
					for _, in := range b.Instrs {
						switch x := in.(type) {
						case *ssa.UnOp:
							if x.Op == token.ARROW {
								recvT[chanElemKey(x.X.Type())] = true
							}
						case *ssa.Select:
							for _, st := range x.States {
								if st.Dir == types.RecvOnly {
									recvT[chanElemKey(st.Chan.Type())] = true
								}
							}
						}
					}
				}
			})
		}
		activeT := map[string]bool{}
		for _, cc := range ex.specs.ClassList {
			for t := range elems[cc.ID] {
				if recvT[t] {
					ex.activeClass[cc.ID] = true
				}
			}
			if ex.activeClass[cc.ID] {
				for t := range elems[cc.ID] {
					activeT[t] = true
				}
			}
		}
		// object invariants relied on in this run are established where objects of the type are created:
		// every function that allocates such an object (constructors prove objinv(result))
		objT := map[string]bool{}
		for tk, cs := range ex.specs.ObjInvs {
			for _, c := range cs {
				if ex.propFilter != nil && ex.propFilter(c.Labels) {
					objT[tk] = true
				}
			}
		}
		for _, k := range ex.prog.scopeFuncKeys() {
			if have[k] || len(objT) == 0 {
				continue
			}
			if sp := ex.specs.Funcs[k]; sp != nil && (sp.Trusted || (sp.Inline && ex.prog.Funcs[k].Parent() != nil)) {
				continue
			}
			fn := ex.prog.Funcs[k]
			hit := false
			for _, b := range fn.Blocks {
				for _, in := range b.Instrs {
					if a, ok := in.(*ssa.Alloc); ok && a.Heap {
						if el := derefType(a.Type()); el != nil && objT[typeKey(el)] {
							hit = true
						}
					}
				}
			}
			if hit {
				have[k] = true
				keys = append(keys, k)
			}
		}
		// declared function fields whose function is verified in this run: every store to the field
		fnOrigins := map[string]bool{}
		for o, target := range ex.specs.FnFields {
			if have[target] {
				fnOrigins[o] = true
			}
		}
		// functions that send on / create / store channels of an active element type
		for _, k := range ex.prog.scopeFuncKeys() {
			if have[k] {
				continue
			}
			if sp := ex.specs.Funcs[k]; sp != nil && sp.Trusted {
				continue
			}
			fn := ex.prog.Funcs[k]
			hit := false
			for _, b := range fn.Blocks {
				for _, in := range b.Instrs {
					ts := map[string]bool{}
					if st, ok := in.(*ssa.Store); ok && len(fnOrigins) > 0 {
						if r, p, ok := staticRoot(st.Addr); ok && fnOrigins["H."+r+"."+strings.TrimSuffix(p, ".")] {
							hit = true
						}
					}
					if ci, ok := in.(ssa.CallInstruction); ok {
						if b, ok := ci.Common().Value.(*ssa.Builtin); ok && b.Name() == "close" {
							hit = true // every close site proves its operand is not a never-closed channel
						}
					}
					switch x := in.(type) {
					case *ssa.Send:
						ts[chanElemKey(x.Chan.Type())] = true
					case *ssa.Select:
						for _, st := range x.States {
							if st.Dir == types.SendOnly {
								ts[chanElemKey(st.Chan.Type())] = true
							}
						}
					case *ssa.MakeChan:
						ts[chanElemKey(x.Type())] = true
					case *ssa.Store:
						chanLeafKeys(x.Val.Type(), 0, ts)
					case *ssa.MapUpdate:
						chanLeafKeys(x.Value.Type(), 0, ts)
					}
					for t := range ts {
						if activeT[t] {
							hit = true
						}
					}
				}
			}
			if !hit {
				continue
			}
			// an inline closure is verified inside its outermost parent
			top := fn
			for top.Parent() != nil && ex.specs.Funcs[ex.prog.Keys[top]] != nil && ex.specs.Funcs[ex.prog.Keys[top]].Inline {
				top = top.Parent()
			}
			tk := ex.prog.Keys[top]
			if tk != "" && !have[tk] {
				have[tk] = true
				keys = append(keys, tk)
			}
			// a closure without a contract that is called (not started) in its parent is covered there
			if fn.Parent() != nil && ex.specs.Funcs[k] == nil {
				pk := ex.prog.Keys[fn.Parent()]
				if pk != "" && !have[pk] {
					have[pk] = true
					keys = append(keys, pk)
				}
			}
		}
		if len(keys) == n {
			break
		}
	}
	return keys
}

// resultObjInvs: an object handed out as a result satisfies its type's object invariant (this is
// where constructors establish it). prove=true: obligations at the return of a verified function;
// prove=false: the same facts assumed for the result of a call under contract.
func (ex *Exec) resultObjInvs(st *State, fr *Frame, key string, ret Val, prove bool) {
	var comps []Val
	if _, isTuple := ret.Typ.(*types.Tuple); isTuple {
		comps = ret.Elems
	} else if ret.Typ != nil {
		comps = []Val{ret}
	}
	for i, r := range comps {
		if r.Typ == nil {
			continue
		}
		if _, isIface := types.Unalias(r.Typ).Underlying().(*types.Interface); isIface {
			if r.Dyn == nil {
				if kv, ok := ex.known[r.T]; ok && kv.Dyn != nil {
					r.Dyn = kv.Dyn
				}
			}
			if r.Dyn == nil {
				continue
			}
			r = *r.Dyn
		}
		el := derefType(r.Typ)
		if el == nil || structOf(el) == nil {
			continue
		}
		for _, c := range ex.specs.ObjInvs[typeKey(el)] {
			g := smtImp("(distinct "+r.T+" 0)", ex.evalClause(st, fr, c, map[string]Val{"self": r}))
			if prove {
				ex.oblige(st, "objinv", fmt.Sprintf("%s/result%d.objinv.%s", key, i, c.name()), c.Labels, g, c, ex.posOf(fr.retInstr))
			} else {
				st.assume(g)
			}
		}
	}
}

// objinvStability: an object invariant is assumed at every method entry and proved only where
// objects are created, so every plain field it reads must be write-once: init_only (C15 proves no
// write after the object is shared), or a map whose contents are guarded by a lock (the clause then
// has to be a lock invariant as well) - anything else is a hole in the proof architecture and is
// reported as a contract error (exit 2), never as a violation.
func (ex *Exec) objinvStability() {
	for tk, cs := range ex.specs.ObjInvs {
		nt := ex.namedType(tk)
		if nt == nil {
			continue
		}
		for _, c := range cs {
			st := &State{ex: ex, heap: map[string]string{}, cnt: map[string]string{}, published: map[string]bool{}}
			fr := &Frame{key: "objinv " + tk, names: map[string]Val{}}
			self := ex.mkVal(types.NewPointer(nt), st.fresh("self", "Int"))
			ev := &evalCtx{ex: ex, st: st, fr: fr, extra: map[string]Val{"self": self}, reads: map[string]bool{}}
			func() {
				defer func() { recover() }()
				ev.eval(c.Expr)
			}()
			for arr := range ev.reads {
				if !strings.HasPrefix(arr, "H.") {
					continue // map contents (covered by lock invariants / A-registration), ghost arrays
				}
				fs, key := ex.fieldSpecFor(arr)
				if !ex.inScopeField(key) {
					continue
				}
				if fs != nil && fs.Disc == "used_only_in" {
					fs = ex.defaultDiscipline(key)
				}
				if fs == nil {
					ex.specError("%s:%d: object invariant of %s reads field %s which has no discipline", c.File, c.Line, tk, key)
					continue
				}
				if !strings.HasPrefix(fs.Disc, "init_only") && fs.Disc != "unshared" {
					ex.specError("%s:%d: object invariant of %s reads field %s whose discipline is %q (not write-once): the invariant is not stable", c.File, c.Line, tk, key, fs.Disc)
				}
			}
		}
	}
}

// onceEntry: a closure declared `once` is only ever handed to (*sync.Once).Do (checked on the SSA of
// its parent), so it runs at most once; a captured channel that is closed in this closure and nowhere
// else in the parent or its other closures is therefore still open when the closure starts (A-once:
// sync.Once runs its function at most once).
func (ex *Exec) onceEntry(st *State, fn *ssa.Function, binds []Val, key string) {
	parent := fn.Parent()
	if parent == nil {
		ex.specError("%s: once on a function that is not a closure", key)
		return
	}
	// (1) every use of the closure value is the argument of (*sync.Once).Do
	var allFns func(f *ssa.Function, visit func(*ssa.Function))
	allFns = func(f *ssa.Function, visit func(*ssa.Function)) {
		visit(f)
		for _, a := range f.AnonFuncs {
			allFns(a, visit)
		}
	}
	okUse := true
	for _, b := range parent.Blocks {
		for _, in := range b.Instrs {
			mc, isMC := in.(*ssa.MakeClosure)
			if !isMC || mc.Fn != ssa.Value(fn) {
				continue
			}
			for _, r := range *mc.Referrers() {
				c, isCall := r.(ssa.CallInstruction)
				if _, isDbg := r.(*ssa.DebugRef); isDbg {
					continue
				}
				if !isCall || c.Common().StaticCallee() == nil || c.Common().StaticCallee().String() != "(*sync.Once).Do" {
					okUse = false
				}
			}
		}
	}
	if !okUse {
		ex.specError("%s: declared once but not only passed to (*sync.Once).Do", key)
		return
	}
	// (2) captured channels closed here and nowhere else in the parent's closure family
	root := parent
	for root.Parent() != nil {
		root = root.Parent()
	}
	closedVars := map[string]bool{}
	closesOf := func(f *ssa.Function) map[string]bool {
		out := map[string]bool{}
		for _, b := range f.Blocks {
			for _, in := range b.Instrs {
				c, ok := in.(ssa.CallInstruction)
				if !ok {
					continue
				}
				if bi, ok := c.Common().Value.(*ssa.Builtin); !ok || bi.Name() != "close" {
					continue
				}
				v := c.Common().Args[0]
				if u, ok := v.(*ssa.UnOp); ok && u.Op == token.MUL {
					v = u.X
				}
				switch x := v.(type) {
				case *ssa.FreeVar:
					out[x.Name()] = true
				case *ssa.Alloc:
					out[x.Comment] = true
				case *ssa.Parameter:
					out[x.Name()] = true
				default:
					out["?"] = true
				}
			}
		}
		return out
	}
	for n := range closesOf(fn) {
		closedVars[n] = true
	}
	allFns(root, func(f *ssa.Function) {
		if f == fn {
			return
		}
		for n := range closesOf(f) {
			if closedVars[n] || n == "?" {
				delete(closedVars, n)
				if n == "?" {
					closedVars = map[string]bool{}
				}
			}
		}
	})
	for i, fv := range fn.FreeVars {
		if i >= len(binds) || !closedVars[fv.Name()] {
			continue
		}
		v := ex.load(st, binds[i])
		if isChanType(v.Typ) {
			st.assume("(not " + st.read("closed", "Bool", v.T) + ")")
			ex.use("assumed: A-once: " + key + " runs at most once (only passed to sync.Once.Do), and " + fv.Name() + " is closed nowhere else, so it is open when the closure starts")
		}
	}
}
