package main

import "fmt"

func (ex *Exec) dbgModSet(key string) {
	fn := ex.prog.Funcs[key]
	ms := ex.funcModSet(fn)
	fmt.Println("modset", key, ms.arrays(), ms.counters())
}
