package main

import (
	"go/token"
	"go/types"
	"sort"
	"strings"

	"golang.org/x/tools/go/ssa"
)

// modSet: heap arrays and ghost counters a piece of code may write (over-approximation,
// computed syntactically over SSA; used to havoc at loop heads and at contract calls).
type modSet struct {
	arr     map[string]bool
	cnt     map[string]bool
	fnTypes map[string]bool // types of function values called (to resolve the fnfield:* wildcard)
	unknown bool
}

func newModSet() *modSet {
	return &modSet{arr: map[string]bool{}, cnt: map[string]bool{}, fnTypes: map[string]bool{}}
}

func (m *modSet) arrays() []string {
	var out []string
	for a := range m.arr {
		if strings.HasSuffix(a, "*") {
			pre := strings.TrimSuffix(a, "*")
			pre = strings.TrimSuffix(pre, ".")
			for k := range knownArrays {
				if strings.HasPrefix(k, pre) {
					out = append(out, k)
				}
			}
			continue
		}
		out = append(out, a)
	}
	sort.Strings(out)
	return out
}

// knownArrays: every heap array name that has been declared so far (for wildcard havocs)
var knownArrays = map[string]bool{}
func (m *modSet) counters() []string {
	var out []string
	for a := range m.cnt {
		out = append(out, a)
	}
	sort.Strings(out)
	return out
}
func (m *modSet) union(o *modSet) {
	for a := range o.arr {
		m.arr[a] = true
	}
	for a := range o.cnt {
		m.cnt[a] = true
	}
	for a := range o.fnTypes {
		if m.fnTypes == nil {
			m.fnTypes = map[string]bool{}
		}
		m.fnTypes[a] = true
	}
	if o.unknown {
		m.unknown = true
	}
}

func (ex *Exec) funcModSet(fn *ssa.Function) *modSet {
	if ms, ok := ex.modCache[fn]; ok {
		return ms
	}
	ms := newModSet()
	ex.modCache[fn] = ms // recursion guard (fixpoint not needed: we union the partial set, then recompute callers lazily)
	for _, b := range fn.Blocks {
		for _, in := range b.Instrs {
			// writes to the callee's own freshly allocated cells/objects are invisible to the caller
			if _, ok := in.(*ssa.Alloc); ok {
				continue
			}
			if st, ok := in.(*ssa.Store); ok && ownAlloc(st.Addr) {
				continue
			}
			ex.scanInstr(in, ms)
		}
	}
	return ms
}

// ownAlloc: the address is (a field of) an object allocated by this very function
func ownAlloc(v ssa.Value) bool {
	switch x := v.(type) {
	case *ssa.Alloc:
		return true
	case *ssa.FieldAddr:
		return ownAlloc(x.X)
	case *ssa.IndexAddr:
		return ownAlloc(x.X)
	}
	return false
}

func (ex *Exec) loopModSet(h *ssa.BasicBlock) *modSet {
	ms := newModSet()
	for b := range loopBlocks(h) {
		for _, in := range b.Instrs {
			ex.scanInstr(in, ms)
		}
	}
	return ms
}

// staticArrs: names of heap arrays a store through addr may write.
func (ex *Exec) staticArrs(addr ssa.Value, ms *modSet) {
	t := derefType(addr.Type())
	root, prefix, ok := staticRoot(addr)
	if ok {
		ex.addFieldArrs(root, prefix, t, ms)
		return
	}
	switch a := addr.(type) {
	case *ssa.IndexAddr:
		_ = a
		so := sortOf(t)
		if so == "" {
			so = "Int"
		}
		ms.arr["arr."+so] = true
		return
	case *ssa.Global:
		so := sortOf(t)
		if so == "" {
			so = "Int"
		}
		ms.arr["global."+so] = true
		return
	}
	if name, ok := resolveCell(addr); ok {
		ms.arr[name] = true
		return
	}
	// Param, Phi ... : a cell or a struct object addressed by its ref
	if s := structOf(t); s != nil {
		ex.addFieldArrs(rootName(t), "", t, ms)
		return
	}
	so := sortOf(t)
	if so == "" {
		so = "Int"
	}
	ms.arr["cell."+so+"*"] = true
}

func (ex *Exec) addFieldArrs(root, prefix string, t types.Type, ms *modSet) {
	if s := structOf(t); s != nil {
		for i := 0; i < s.NumFields(); i++ {
			if skipField(s.Field(i)) {
				continue
			}
			ex.addFieldArrs(root, prefix+s.Field(i).Name()+".", s.Field(i).Type(), ms)
		}
		return
	}
	ms.arr["H."+root+"."+strings.TrimSuffix(prefix, ".")] = true
}

// staticRoot: for a FieldAddr chain returns (Root, Prefix-including-this-field).
func staticRoot(v ssa.Value) (string, string, bool) {
	fa, ok := v.(*ssa.FieldAddr)
	if !ok {
		return "", "", false
	}
	st := structOf(derefType(fa.X.Type()))
	if st == nil {
		return "", "", false
	}
	fname := st.Field(fa.Field).Name()
	if r, p, ok := staticRoot(fa.X); ok {
		return r, p + fname + ".", true
	}
	return rootName(derefType(fa.X.Type())), fname + ".", true
}

func (ex *Exec) mapArrs(mt *types.Map, ms *modSet) {
	mk := mapKey(mt)
	ms.arr["Mdom."+mk] = true
	ms.arr["Mlen."+mk] = true
	var hv func(t types.Type, suffix string)
	hv = func(t types.Type, suffix string) {
		if s := structOf(t); s != nil {
			for i := 0; i < s.NumFields(); i++ {
				hv(s.Field(i).Type(), suffix+"."+s.Field(i).Name())
			}
			return
		}
		ms.arr["Mval."+mk+suffix] = true
	}
	hv(mt.Elem(), "")
}

func (ex *Exec) scanInstr(in ssa.Instruction, ms *modSet) {
	switch x := in.(type) {
	case *ssa.Store:
		ex.staticArrs(x.Addr, ms)
	case *ssa.Alloc:
		// zero initialisation writes every field of the new object
		ex.staticArrs(x, ms)
	case *ssa.MapUpdate:
		if mt, ok := types.Unalias(x.Map.Type()).Underlying().(*types.Map); ok {
			ex.mapArrs(mt, ms)
		}
	case *ssa.MakeMap:
		if mt, ok := types.Unalias(x.Type()).Underlying().(*types.Map); ok {
			ex.mapArrs(mt, ms)
		}
	case *ssa.MakeChan:
		ms.arr["closed"] = true
		ms.arr["chlen.*"] = true
	case *ssa.Range:
		if mt, ok := types.Unalias(x.X.Type()).Underlying().(*types.Map); ok {
			ms.arr["visited."+sortOf(mt.Key())] = true
		}
	case *ssa.Next:
		for _, so := range []string{"Int", "String"} {
			ms.arr["visited."+so] = true
		}
	case *ssa.Send:
		ms.cnt["send"] = true
		ms.cnt["send:*"] = true
		ms.arr["chlen.*"] = true
	case *ssa.Select:
		ms.arr["chlen.*"] = true
		ms.cnt["send"] = true
		ms.cnt["send:*"] = true
		ms.cnt["recv"] = true
		ms.arr["closed"] = true
		ms.arr["ctxdone"] = true
	case *ssa.UnOp:
		if x.Op == token.ARROW {
			ms.cnt["recv"] = true
			ms.arr["closed"] = true
			ms.arr["ctxdone"] = true
		}
	case *ssa.Call:
		ex.scanCall(x.Common(), ms, false)
	case *ssa.Defer:
		ex.scanCall(x.Common(), ms, false)
	case *ssa.Go:
		ex.scanCall(x.Common(), ms, true)
	case *ssa.MakeClosure:
		// closures created here may be called by inlined callees; include their effects
		if fn, ok := x.Fn.(*ssa.Function); ok {
			ms.union(ex.funcModSet(fn))
		}
	}
}

func (ex *Exec) scanCall(c *ssa.CallCommon, ms *modSet, isGo bool) {
	if b, ok := c.Value.(*ssa.Builtin); ok {
		switch b.Name() {
		case "delete":
			if mt, ok := types.Unalias(c.Args[0].Type()).Underlying().(*types.Map); ok {
				ex.mapArrs(mt, ms)
			}
		case "close":
			ms.arr["closed"] = true
			ms.cnt["close"] = true
		}
		return
	}
	name := calleeName(c, Val{})
	if isGo {
		ms.cnt["go:"+name] = true
		return
	}
	if fn := c.StaticCallee(); fn != nil {
		full := fn.String()
		switch full {
		case "(*sync.Mutex).Lock", "(*sync.Mutex).Unlock":
			if full == "(*sync.Mutex).Lock" {
				ms.cnt["lock"] = true
			}
			ms.arr["closed"] = true
			ms.arr["ctxdone"] = true
			ms.arr["chlen.*"] = true
			if r, p, ok := staticRoot(c.Args[0]); ok {
				key := r + "." + strings.TrimSuffix(p, ".")
				if ls := ex.specs.Locks[key]; ls != nil {
					for _, g := range ls.Guards {
						ft := ex.fieldTypeAt(r, g)
						if ft == nil {
							continue
						}
						if mt, ok := types.Unalias(ft).Underlying().(*types.Map); ok {
							ex.mapArrs(mt, ms)
						} else {
							ms.arr["H."+r+"."+g] = true
						}
					}
				}
			} else {
				ms.unknown = true
			}
			return
		case "sync/atomic.AddUint64":
			ex.staticArrs(c.Args[0], ms)
			ms.cnt[name] = true
			return
		case "(*sync.WaitGroup).Add", "(*sync.WaitGroup).Done":
			if r, p, ok := staticRoot(c.Args[0]); ok {
				ms.arr["wg."+r+"."+strings.TrimSuffix(p, ".")] = true
			}
			return
		}
		if _, isExt := externals[full]; isExt {
			ms.cnt[name] = true
			for _, w := range externalWrites[full] {
				ms.arr[w] = true
			}
			return
		}
		if inScope(fn) || isGenProto(fn) || (fn.Parent() != nil && inScope(fn.Parent())) {
			if isGenProto(fn) && strings.HasPrefix(fn.Name(), "Get") {
				return
			}
			ms.union(ex.funcModSet(fn))
			if k := ex.prog.Keys[fn]; k != "" {
				ms.cnt["call:"+k] = true
			}
			return
		}
		ms.cnt[name] = true
		return
	}
	// interface method or function value: counters only (frame assumption F1),
	// plus effects of context-related externals
	ms.cnt[name] = true
	for _, pre := range []string{"HandleRPC", "HandleConn"} {
		if strings.HasSuffix(name, "stats.Handler)."+pre) {
			// per-event-type counters bumped by the assumed contract: the event's dynamic type is
			// usually visible at the call site (a MakeInterface of a fresh *stats.X)
			if len(c.Args) == 2 {
				if mi, ok := c.Args[1].(*ssa.MakeInterface); ok {
					ms.cnt[pre+":"+typeKey(mi.X.Type())] = true
					continue
				}
			}
			ms.cnt[pre+":*"] = true
		}
	}
	if !c.IsInvoke() && isCancelFuncType(c.Value.Type()) {
		ms.arr["ctxdone"] = true
		return
	}
	if !c.IsInvoke() {
		ms.cnt["fnfield:*"] = true
		if ms.fnTypes == nil {
			ms.fnTypes = map[string]bool{}
		}
		ms.fnTypes[types.TypeString(types.Unalias(c.Value.Type()), nil)] = true
		for _, w := range externalWrites["fnfield:*"] {
			ms.arr[w] = true
		}
	}
	for _, w := range externalWrites[name] {
		ms.arr[w] = true
	}
}

// externalWrites: heap arrays written by assumed contracts
var externalWrites = map[string][]string{}
