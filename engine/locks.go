package main

import (
	"sort"
	"fmt"
	"go/types"
	"strings"

	"golang.org/x/tools/go/ssa"
)

// namedType resolves a type key such as client.RpcMultiplexer.
func (ex *Exec) namedType(key string) types.Type {
	if t, ok := ex.typeCache[key]; ok {
		return t
	}
	i := strings.LastIndex(key, ".")
	if i < 0 {
		return nil
	}
	short, name := key[:i], key[i+1:]
	for _, sp := range ex.prog.Prog.AllPackages() {
		if sp.Pkg.Path() == short {
			if o := sp.Pkg.Scope().Lookup(name); o != nil {
				if _, ok := o.(*types.TypeName); ok {
					ex.typeCache[key] = o.Type()
					return o.Type()
				}
			}
		}
	}
	for path, s := range scopePkgs {
		if s == short {
			if sp := ex.prog.SSA[path]; sp != nil {
				if o := sp.Pkg.Scope().Lookup(name); o != nil {
					ex.typeCache[key] = o.Type()
					return o.Type()
				}
			}
		}
	}
	for _, sp := range ex.prog.Prog.AllPackages() {
		if sp.Pkg.Name() == short {
			if o := sp.Pkg.Scope().Lookup(name); o != nil {
				if _, ok := o.(*types.TypeName); ok {
					ex.typeCache[key] = o.Type()
					return o.Type()
				}
			}
		}
	}
	return nil
}

// fieldTypeAt walks root.prefix (dotted) and returns the type at that path.
func (ex *Exec) fieldTypeAt(root, path string) types.Type {
	t := ex.namedType(root)
	if t == nil {
		return nil
	}
	for _, f := range strings.Split(strings.Trim(path, "."), ".") {
		if f == "" {
			continue
		}
		s := structOf(t)
		if s == nil {
			return nil
		}
		found := false
		for i := 0; i < s.NumFields(); i++ {
			if s.Field(i).Name() == f {
				t = s.Field(i).Type()
				found = true
				break
			}
		}
		if !found {
			return nil
		}
	}
	return t
}

// selfOf: pointer to the root object (the named struct) that contains the mutex p points to.
// Guards and invariants are written as paths from that object (self.protected.done).
func (ex *Exec) selfOf(p Val) Val {
	t := ex.namedType(p.Root)
	if t == nil {
		return Val{T: p.T, S: "Int", Root: p.Root}
	}
	return Val{T: p.T, S: "Int", Typ: types.NewPointer(t), Root: p.Root}
}

// pathPtr: pointer to the field at dotted path from self
func (ex *Exec) pathPtr(self Val, path string) (Val, types.Type, bool) {
	cur := self
	var ft types.Type
	parts := strings.Split(path, ".")
	for i, f := range parts {
		s := structOf(derefType(cur.Typ))
		if s == nil {
			return Val{}, nil, false
		}
		idx, emb := findField(s, f)
		if idx < 0 {
			return Val{}, nil, false
		}
		for _, e := range emb {
			cur = ex.fieldPtr(cur, e)
		}
		s = structOf(derefType(cur.Typ))
		ft = s.Field(idx).Type()
		cur = ex.fieldPtr(cur, idx)
		if i < len(parts)-1 && structOf(ft) == nil {
			return Val{}, nil, false
		}
	}
	return cur, ft, true
}

func (ex *Exec) havocGuards(st *State, ls *LockSpec, self Val) {
	for _, g := range ls.Guards {
		fp, ft, ok := ex.pathPtr(self, g)
		if !ok {
			ex.specError("lock %s: guard %s is not a field path", ls.Key, g)
			continue
		}
		if mt, ok := types.Unalias(ft).Underlying().(*types.Map); ok {
			// the map header field is init-only; its contents are what the lock guards
			m := ex.load(st, fp)
			ex.havocMap(st, m, mt)
			continue
		}
		if fp.Arr == "" {
			continue
		}
		so := sortOf(ft)
		if so == "" {
			so = "Int"
		}
		nv := st.fresh("guarded."+g, so)
		if isRefLike(ft) {
			st.assume("(> " + nv + " " + smtInt(int64(-(ex.nalloc+1))) + ")")
		}
		st.write(fp.Arr, so, self.T, nv)
	}
}

func (ex *Exec) havocMap(st *State, m Val, mt *types.Map) {
	mk := mapKey(mt)
	ks := sortOf(mt.Key())
	st.write("Mdom."+mk, "(Array "+ks+" Bool)", m.T, st.fresh("dom", "(Array "+ks+" Bool)"))
	st.write("Mlen."+mk, "Int", m.T, st.fresh("mlen", "Int"))
	var hv func(t types.Type, suffix string)
	hv = func(t types.Type, suffix string) {
		if s := structOf(t); s != nil {
			for i := 0; i < s.NumFields(); i++ {
				hv(s.Field(i).Type(), suffix+"."+s.Field(i).Name())
			}
			return
		}
		so := sortOf(t)
		if so == "" {
			so = "Int"
		}
		nv := st.fresh("mval", "(Array "+ks+" "+so+")")
		if isRefLike(t) {
			// nothing stored in the map can be an object this path allocates later
			st.assume("(forall ((k " + ks + ")) (! (> (select " + nv + " k) " + smtInt(int64(-(ex.nalloc+1))) + ") :pattern ((select " + nv + " k))))")
		}
		st.write("Mval."+mk+suffix, "(Array "+ks+" "+so+")", m.T, nv)
	}
	hv(mt.Elem(), "")
}

func (ex *Exec) lock(st *State, fr *Frame, instr ssa.Instruction, p Val) {
	key := lockKeyOf(p)
	lr := LockRef{Key: key, Ref: p.T}
	if st.isHeld(lr) {
		ex.notes["DOUBLE-LOCK "+fr.key+" "+key] = true
	}
	st.note("Lock " + key)
	for _, h := range st.held {
		ex.lockEdge(h.Key, key, fr.key)
	}
	st.bump("lock") // ghost counter: mutex acquisitions (a function that must not wait for a lock keeps it unchanged)
	ls := ex.specs.Locks[key]
	ex.havocClosed(st)
	ex.observeCtx(st)
	for a := range ex.heapSort { // queue lengths of shared channels are only known through lock invariants
		if strings.HasPrefix(a, "chlen") {
			st.havoc(a)
		}
	}
	if ls != nil {
		self := ex.selfOf(p)
		ex.havocGuards(st, ls, self)
		for _, c := range ls.Inv {
			if ex.openFindings != nil && ex.openFindings["lock "+key+"/"+c.name()] {
				continue
			}
			st.assume(ex.evalClause(st, fr, c, map[string]Val{"self": self}))
		}
	}
	st.held = append(st.held, lr)
	fr.lockSnap = st.snapshot()
}

func (ex *Exec) unlock(st *State, fr *Frame, instr ssa.Instruction, p Val) {
	key := lockKeyOf(p)
	lr := LockRef{Key: key, Ref: p.T}
	st.note("Unlock " + key)
	if !st.isHeld(lr) {
		// may be held under a syntactically different ref term; look for same key
		found := false
		for _, h := range st.held {
			if h.Key == key {
				lr = h
				found = true
			}
		}
		if !found {
			ex.notes["UNLOCK-NOT-HELD "+fr.key+" "+key] = true
		}
	}
	if ls := ex.specs.Locks[key]; ls != nil {
		self := ex.selfOf(p)
		for _, c := range ls.Inv {
			g := ex.evalClause(st, fr, c, map[string]Val{"self": self})
			ex.oblige(st, "lockinv", fmt.Sprintf("%s/unlock.%s.%s", fr.key, key, c.name()), c.Labels, g, c, ex.posOf(instr))
		}
	}
	var nh []LockRef
	removed := false
	for _, h := range st.held {
		if h == lr && !removed {
			removed = true
			continue
		}
		nh = append(nh, h)
	}
	st.held = nh
	ex.havocClosed(st)
}

// observeCtx: contexts may become done at any time (monotone).
func (ex *Exec) observeCtx(st *State) {
	old := st.arr("ctxdone", "Bool")
	st.havoc("ctxdone")
	nw := st.arr("ctxdone", "Bool")
	if old == nw {
		return
	}
	st.assume("(forall ((c Int)) (! (=> (select " + old + " c) (select " + nw + " c)) :pattern ((select " + nw + " c))))")
}

// ---------- C11: no consumer-dependent blocking under a teardown lock ----------

func (ex *Exec) teardownHeld(st *State) string {
	for _, h := range st.held {
		if ls := ex.specs.Locks[h.Key]; ls != nil && ls.Teardown {
			return h.Key
		}
	}
	return ""
}

func (ex *Exec) blockingUnderLock(st *State, fr *Frame, instr ssa.Instruction, ch Val, blocking bool) {
	l := ex.teardownHeld(st)
	if l == "" {
		return
	}
	goal := "(< " + st.read(chlenArr(ch), "Int", ch.T) + " (ch_cap " + ch.T + "))"
	ex.oblige(st, "no-blocking-under-lock", fmt.Sprintf("%s/C11.send_under_%s#%d", fr.key, l, ex.ordinalOf(fr, instr, "send")),
		[]string{"C11.no_blocking_under_teardown_lock"}, goal, nil, ex.posOf(instr))
}

// mayBlockOnSend: the function (or an in-scope function it calls, transitively) contains a plain
// send or a blocking select with a send case -- a hand-off whose completion depends on a consumer.
func (ex *Exec) mayBlockOnSend(fn *ssa.Function, seen map[*ssa.Function]bool) bool {
	if fn == nil || seen[fn] || fn.Blocks == nil {
		return false
	}
	seen[fn] = true
	for _, b := range fn.Blocks {
		for _, in := range b.Instrs {
			switch x := in.(type) {
			case *ssa.Send:
				return true
			case *ssa.Select:
				if x.Blocking {
					for _, s := range x.States {
						if s.Dir == types.SendOnly {
							return true
						}
					}
				}
			case *ssa.Call:
				if c := x.Common().StaticCallee(); c != nil && inScope(c) && ex.mayBlockOnSend(c, seen) {
					return true
				}
			}
		}
	}
	return false
}

// callUnderLock: a call to a function under contract is opaque to the caller; if the callee may
// block on a hand-off and a teardown lock is held here, that is the C11 pattern.
func (ex *Exec) callUnderLock(st *State, fr *Frame, instr ssa.Instruction, fn *ssa.Function, key string) {
	l := ex.teardownHeld(st)
	if l == "" || instr == nil {
		return
	}
	if sp := ex.specs.Funcs[key]; sp != nil && sp.NonBlock != nil {
		return // proved never to block
	}
	if !ex.mayBlockOnSend(fn, map[*ssa.Function]bool{}) {
		return
	}
	ex.oblige(st, "no-blocking-under-lock", fmt.Sprintf("%s/C11.call_may_block_under_%s~%s", fr.key, l, key),
		[]string{"C11.no_blocking_under_teardown_lock"}, "false", nil, ex.posOf(instr))
}

func (ex *Exec) selectUnderLock(st *State, fr *Frame, sel *ssa.Select, ch Val) {
	if !sel.Blocking {
		return
	}
	l := ex.teardownHeld(st)
	if l == "" {
		return
	}
	goal := "(< " + st.read(chlenArr(ch), "Int", ch.T) + " (ch_cap " + ch.T + "))"
	if fr.spec != nil {
		// ... or the select can be released by a declared signal
		for _, c := range fr.spec.ReleasedBy {
			want := ex.evalSpec(st, fr, c.Expr, nil)
			for _, s2 := range sel.States {
				if s2.Dir == types.RecvOnly {
					goal = smtOr(goal, "(= "+ex.val(st, fr, s2.Chan).T+" "+want.T+")")
				}
			}
		}
	}
	ex.oblige(st, "no-blocking-under-lock", fmt.Sprintf("%s/C11.select_send_under_%s#%d", fr.key, l, ex.ordinalOf(fr, sel, "select")),
		[]string{"C11.no_blocking_under_teardown_lock"}, goal, nil, ex.posOf(sel))
}

// ---------- C15: locking discipline ----------

func (ex *Exec) fieldSpecFor(arr string) (*FieldSpec, string) {
	if !strings.HasPrefix(arr, "H.") {
		return nil, ""
	}
	key := strings.TrimPrefix(arr, "H.")
	if fs := ex.specs.Fields[key]; fs != nil {
		return fs, key
	}
	// struct-wide default: longest declared type prefix
	for i := len(key) - 1; i > 0; i-- {
		if key[i] == '.' {
			if d := ex.specs.FieldDefaults[key[:i]]; d != nil {
				return d, key
			}
		}
	}
	return nil, key
}

func (ex *Exec) discipline(st *State, fr *Frame, instr ssa.Instruction, p Val, isWrite bool) {
	if p.Arr == "" {
		return
	}
	if fs, key := ex.fieldSpecFor(p.Arr); fs != nil && fs.Disc == "used_only_in" {
		ok := "false"
		for _, f := range fs.Args {
			if f == fr.key || f == ex.curKey {
				ok = "true"
			}
		}
		if ok == "false" {
			ex.oblige(st, "used-only-in", fmt.Sprintf("%s#uses@%s", fr.key, key), fs.Labels, ok, nil, ex.posOf(instr))
		}
		// used_only_in restricts who touches the field; how it is written follows the struct's default
		if ex.disciplineOn && ex.inScopeField(key) {
			if d := ex.defaultDiscipline(key); d != nil {
				ex.checkField(st, fr, instr, d, key, p.T, isWrite)
			}
		}
		return
	}
	if !ex.disciplineOn {
		return
	}
	fs, key := ex.fieldSpecFor(p.Arr)
	if key == "" || !ex.inScopeField(key) {
		return
	}
	ex.checkField(st, fr, instr, fs, key, p.T, isWrite)
}

// defaultDiscipline: the struct-wide default that applies to a field (longest declared type prefix)
func (ex *Exec) defaultDiscipline(key string) *FieldSpec {
	for i := len(key) - 1; i > 0; i-- {
		if key[i] == '.' {
			if d := ex.specs.FieldDefaults[key[:i]]; d != nil {
				return d
			}
		}
	}
	return nil
}

func (ex *Exec) inScopeField(key string) bool {
	i := strings.Index(key, ".")
	if i < 0 {
		return false
	}
	for _, s := range scopePkgs {
		if key[:i] == s {
			return true
		}
	}
	return false
}

func (ex *Exec) disciplineMap(st *State, fr *Frame, instr ssa.Instruction, m Val, isWrite bool) {
	if !ex.disciplineOn || m.Origin == "" {
		return
	}
	fs, key := ex.fieldSpecFor(m.Origin)
	if key == "" || !ex.inScopeField(key) || m.OriginRef == "" {
		return
	}
	if fs != nil && fs.Disc == "init_only" && fs.Lock != "" {
		// init_only header, contents guarded by Lock
		ex.checkField(st, fr, instr, &FieldSpec{Key: fs.Key, Disc: "guarded_by", Lock: fs.Lock, Readers: fs.Readers}, key, m.OriginRef, isWrite)
		return
	}
	if fs != nil && fs.Disc == "init_only" {
		// map header and contents are written only before publication
		ex.checkField(st, fr, instr, fs, key, m.OriginRef, isWrite)
		return
	}
	ex.checkField(st, fr, instr, fs, key, m.OriginRef, isWrite)
}

func (ex *Exec) disciplineAtomic(st *State, fr *Frame, instr ssa.Instruction, p Val) {
	if !ex.disciplineOn {
		return
	}
	arr := p.Arr
	if arr == "" && p.Root != "" {
		arr = "H." + p.Root + "." + strings.TrimSuffix(p.Prefix, ".")
	}
	fs, key := ex.fieldSpecFor(arr)
	if key == "" || !ex.inScopeField(key) {
		return
	}
	name := fmt.Sprintf("%s#discipline@%s#%d", fr.key, key, ex.ordinalOf(fr, instr, "disc"))
	if fs == nil {
		ex.uncovered[key] = true
		return
	}
	goal := "true"
	if fs.Disc != "atomic" {
		goal = "false"
	}
	ex.oblige(st, "discipline", name, []string{"C15.discipline"}, goal, nil, ex.posOf(instr))
}

func isFreshRef(t string) bool { return strings.HasPrefix(t, "(- ") }

func (ex *Exec) checkField(st *State, fr *Frame, instr ssa.Instruction, fs *FieldSpec, key, ref string, isWrite bool) {
	name := fmt.Sprintf("%s#discipline@%s#%d", fr.key, key, ex.ordinalOf(fr, instr, "disc"))
	if fr.key != ex.curKey {
		name = fmt.Sprintf("%s#discipline@%s~%s#%d", ex.curKey, key, fr.key, ex.ordinalOf(fr, instr, "disc"))
	}
	if fs == nil {
		ex.uncovered[key] = true
		return
	}
	goal := "false"
	switch fs.Disc {
	case "guarded_by":
		lk := ex.lockKeyFor(key, fs.Lock)
		var alts []string
		for _, h := range st.held {
			if h.Key == lk {
				if h.Ref == ref {
					alts = []string{"true"}
					break
				}
				alts = append(alts, smtEq(h.Ref, ref))
			}
		}
		goal = smtOr(alts...)
		// reads by the declared single writer do not need the lock
		if !isWrite {
			for _, w := range fs.Readers {
				if w == fr.key || w == ex.curKey {
					goal = "true"
				}
			}
		}
		// a freshly allocated, unpublished object needs no lock
		if isFreshRef(ref) && !ex.published(st, fr, ref) {
			goal = "true"
		}
	case "atomic":
		goal = "false"
	case "init_only":
		if !isWrite {
			goal = "true"
		} else if isFreshRef(ref) && !ex.published(st, fr, ref) {
			goal = "true"
		} else {
			for _, w := range fs.Inits {
				if w == fr.key || w == ex.curKey {
					goal = "true" // declared initialiser (runs before the object is shared)
				}
			}
		}
	case "unshared":
		goal = "true"
	default:
		ex.specError("field %s: unknown discipline %s", key, fs.Disc)
	}
	ex.oblige(st, "discipline", name, []string{"C15.discipline"}, goal, nil, ex.posOf(instr))
}

// published: has the object been handed to another goroutine on this path?
func (ex *Exec) published(st *State, fr *Frame, ref string) bool {
	return st.published[ref]
}

// ---------- close census ----------

func (ex *Exec) closeCensus(st *State, fr *Frame, instr ssa.Instruction, ch Val) {
	if cs := ex.chanSpec(ch); cs != nil {
		switch cs.Kind {
		case "never_closed":
			ex.oblige(st, "close-census", fmt.Sprintf("%s#close@%s", fr.key, smtSym(ch.Origin)), []string{"C15.discipline", "C18.census", "C19.census"}, "false", nil, ex.posOf(instr))
		case "owner_closed":
			ok := "false"
			if cs.Arg == fr.key || cs.Arg == ex.curKey {
				ok = "true"
			}
			ex.oblige(st, "close-census", fmt.Sprintf("%s#close@%s", fr.key, smtSym(ch.Origin)), []string{"C15.discipline"}, ok, nil, ex.posOf(instr))
		}
	}
	ex.closeSites[fr.key+" closes "+ch.Origin] = true
}

// lockKeyFor: lock key for a field key (Type.path.field) and a lock path relative to the struct type.
func (ex *Exec) lockKeyFor(fieldKey, lockPath string) string {
	// the struct type is the longest prefix that names a type
	for i := len(fieldKey) - 1; i > 0; i-- {
		if fieldKey[i] == '.' {
			if ex.namedType(fieldKey[:i]) != nil {
				// keep the longest: continue scanning leftwards only if this is not a type
			}
		}
	}
	parts := strings.Split(fieldKey, ".")
	for n := len(parts) - 1; n >= 1; n-- {
		if ex.namedType(strings.Join(parts[:n], ".")) != nil {
			return strings.Join(parts[:n], ".") + "." + lockPath
		}
	}
	return fieldKey[:strings.LastIndex(fieldKey, ".")] + "." + lockPath
}

// lockEdge: "to" is acquired while "from" is held (in function where). Collected over the run; a cycle
// in this relation is a possible lock-order deadlock (reported by lockOrderCycles).
func (ex *Exec) lockEdge(from, to, where string) {
	if from == to {
		return
	}
	if ex.lockEdges == nil {
		ex.lockEdges = map[string]map[string]string{}
	}
	if ex.lockEdges[from] == nil {
		ex.lockEdges[from] = map[string]string{}
	}
	if _, ok := ex.lockEdges[from][to]; !ok {
		ex.lockEdges[from][to] = where
	}
}

// locksTakenBy: declared-or-not mutexes a function may acquire (transitively through in-scope callees)
func (ex *Exec) locksTakenBy(fn *ssa.Function, seen map[*ssa.Function]bool, out map[string]bool) {
	if fn == nil || seen[fn] || fn.Blocks == nil {
		return
	}
	seen[fn] = true
	for _, b := range fn.Blocks {
		for _, in := range b.Instrs {
			c, ok := in.(ssa.CallInstruction)
			if !ok {
				continue
			}
			if f := c.Common().StaticCallee(); f != nil {
				if f.String() == "(*sync.Mutex).Lock" {
					if r, p, ok := staticRoot(c.Common().Args[0]); ok {
						out[r+"."+strings.TrimSuffix(p, ".")] = true
					}
				} else if inScope(f) {
					ex.locksTakenBy(f, seen, out)
				}
			}
		}
	}
}

func (ex *Exec) lockOrderCycles() []string {
	var cycles []string
	color := map[string]int{}
	var stack []string
	var dfs func(n string)
	dfs = func(n string) {
		color[n] = 1
		stack = append(stack, n)
		for m := range ex.lockEdges[n] {
			if color[m] == 1 {
				i := len(stack) - 1
				for i >= 0 && stack[i] != m {
					i--
				}
				cyc := append(append([]string{}, stack[i:]...), m)
				cycles = append(cycles, strings.Join(cyc, " -> "))
			} else if color[m] == 0 {
				dfs(m)
			}
		}
		stack = stack[:len(stack)-1]
		color[n] = 2
	}
	var keys []string
	for k := range ex.lockEdges {
		keys = append(keys, k)
	}
	sort.Strings(keys)
	for _, k := range keys {
		if color[k] == 0 {
			dfs(k)
		}
	}
	return cycles
}
