package main

import (
	"fmt"
	"go/types"
	"strings"

	"golang.org/x/tools/go/ssa"
)

type evalCtx struct {
	ex    *Exec
	st    *State
	fr    *Frame
	extra map[string]Val
	bound []map[string]Val
	heap  map[string]string // nil = current heap; else snapshot view
	cnt   map[string]string
	inOld bool
	err   []string
	reads map[string]bool // when non-nil: heap arrays read while evaluating (objinv stability lint)
	usedLocal bool // the expression refers to a local variable of the callee (meaningless at a call site)
}

func (ex *Exec) evalClause(st *State, fr *Frame, c *Clause, extra map[string]Val) string {
	v := ex.evalSpec(st, fr, c.Expr, extra)
	if v.S != "Bool" {
		ex.specError("%s:%d: clause is not boolean: %s", c.File, c.Line, c.Text)
		return "true"
	}
	return v.T
}

func (ex *Exec) specError(format string, a ...interface{}) {
	ex.notes["SPEC-ERROR "+fmt.Sprintf(format, a...)] = true
	ex.specErrs++
}

func (ex *Exec) evalSpec(st *State, fr *Frame, e *SExpr, extra map[string]Val) Val {
	ev := &evalCtx{ex: ex, st: st, fr: fr, extra: extra}
	v := ev.eval(e)
	for _, m := range ev.err {
		ex.specError("in %s: %s  [expr %s]", fr.key, m, e.String())
	}
	return v
}

func (ev *evalCtx) fail(format string, a ...interface{}) Val {
	ev.err = append(ev.err, fmt.Sprintf(format, a...))
	return Val{T: "true", S: "Bool"}
}

func (ev *evalCtx) read(name, sort, ref string) string {
	st := ev.st
	if ev.reads != nil {
		ev.reads[name] = true
	}
	if ev.heap != nil {
		return "(select " + st.arrIn(ev.heap, name, sort) + " " + ref + ")"
	}
	return st.read(name, sort, ref)
}

func ghost(t, s string) Val { return Val{T: t, S: s} }

func (ev *evalCtx) isParam(n string) bool {
	if ev.fr.fn == nil {
		return false
	}
	for _, p := range ev.fr.fn.Params {
		if p.Name() == n {
			return true
		}
	}
	for _, fv := range ev.fr.fn.FreeVars {
		if fv.Name() == n {
			return true
		}
	}
	return n == "result" || n == "self" || n == "returning"
}

func (ev *evalCtx) lookupName(n string) (Val, bool) {
	for i := len(ev.bound) - 1; i >= 0; i-- {
		if v, ok := ev.bound[i][n]; ok {
			return v, true
		}
	}
	if v, ok := ev.extra[n]; ok {
		return v, true
	}
	fr := ev.fr
	if n == "result" {
		return fr.results, true
	}
	if n == "returning" {
		for f := fr; f != nil; f = f.parent {
			if f.pending != nil {
				return *f.pending, true
			}
		}
		return Val{}, false
	}
	if ev.inOld {
		for i, p := range fr.fn.Params {
			if p.Name() == n && i < len(fr.params) {
				return fr.params[i], true
			}
		}
	}
	if av, ok := fr.nameAlias[n]; ok {
		if v, have := fr.vals[av]; have {
			if cur, ok2 := fr.names[n]; !ok2 || cur.T == "0" {
				return v, true
			}
		}
	}
	// a variable that lives in a cell (captured or address-taken) is read from the cell
	if a, ok := fr.names["&"+n]; ok {
		return ev.loadPtr(a), true
	}
	if v, ok := fr.names[n]; ok {
		return v, true
	}
	// named results
	return Val{}, false
}

// loadPtr loads through a pointer value using the current heap view.
func (ev *evalCtx) loadPtr(p Val) Val {
	ex := ev.ex
	el := derefType(p.Typ)
	if el == nil {
		return ev.fail("load through non-pointer")
	}
	if s := structOf(el); s != nil && p.Arr == "" {
		// keep as pointer to struct (lvalue); fields selected later
		return p
	}
	if p.Arr == "" {
		return ev.fail("pointer without array")
	}
	so := sortOf(el)
	if so == "" {
		so = "Int"
	}
	v := ex.mkVal(el, ev.read(p.Arr, so, p.T))
	v.Origin = p.Arr
	return v
}

func (ev *evalCtx) eval(e *SExpr) Val {
	ex := ev.ex
	switch e.Op {
	case "int":
		return ghost(smtInt(e.Int), "Int")
	case "bigint":
		return ghost(e.Name, "Int")
	case "str":
		return ghost(smtString(e.Str), "String")
	case "bool":
		return ghost(e.Name, "Bool")
	case "nil":
		return ghost("0", "Int")
	case "ident":
		if v, ok := ev.lookupName(e.Name); ok {
			return v
		}
		if c, ok := prelude.consts[e.Name]; ok {
			return ghost(e.Name, c)
		}
		if ev.fr.pseudo {
			ev.usedLocal = true
		}
		return ev.fail("unknown identifier %s", e.Name)
	case "old":
		save, saveC, saveO := ev.heap, ev.cnt, ev.inOld
		ev.heap, ev.cnt, ev.inOld = ev.fr.entryHeap, ev.fr.entryCnt, true
		if ev.heap == nil {
			ev.heap = map[string]string{}
		}
		v := ev.eval(e.Args[0])
		ev.heap, ev.cnt, ev.inOld = save, saveC, saveO
		return v
	case "un":
		a := ev.eval(e.Args[0])
		if e.Name == "!" {
			if a.S != "Bool" {
				return ev.fail("! on non-bool")
			}
			return ghost(smtNot(a.T), "Bool")
		}
		return ghost("(- "+a.T+")", "Int")
	case "bin":
		return ev.bin(e)
	case "sel":
		return ev.sel(e)
	case "index":
		return ev.index(e)
	case "slice":
		return ev.fail("slice expressions not supported in specs; use a prelude function")
	case "call":
		return ev.call(e)
	case "forall", "exists":
		so := e.VarSort
		name := fmt.Sprintf("%s!%d", e.Var, len(ev.bound))
		name = smtSym(name)
		ev.bound = append(ev.bound, map[string]Val{e.Var: ghost(name, so)})
		body := ev.eval(e.Args[0])
		ev.bound = ev.bound[:len(ev.bound)-1]
		if body.S != "Bool" {
			return ev.fail("quantifier body not boolean")
		}
		return ghost("("+e.Op+" (("+name+" "+so+")) "+body.T+")", "Bool")
	}
	_ = ex
	return ev.fail("unsupported spec node %s", e.Op)
}

func (ev *evalCtx) bin(e *SExpr) Val {
	op := e.Name
	if op == "in" {
		k := ev.eval(e.Args[0])
		m := ev.eval(e.Args[1])
		mt, mk, ks := ev.ex.mapInfo(m)
		if mt == nil {
			return ev.fail("'in' on non-map")
		}
		dom := ev.read("Mdom."+mk, "(Array "+ks+" Bool)", m.T)
		if isFreshRef(m.T) {
			return ghost("(select "+dom+" "+k.T+")", "Bool")
		}
		return ghost("(and (distinct "+m.T+" 0) (select "+dom+" "+k.T+"))", "Bool")
	}
	a := ev.eval(e.Args[0])
	if (op == "&&" || op == "==>") && a.T == "false" {
		if op == "&&" {
			return ghost("false", "Bool")
		}
		return ghost("true", "Bool")
	}
	if op == "||" && a.T == "true" {
		return ghost("true", "Bool")
	}
	b := ev.eval(e.Args[1])
	switch op {
	case "&&":
		return ghost(smtAnd(a.T, b.T), "Bool")
	case "||":
		return ghost(smtOr(a.T, b.T), "Bool")
	case "==>":
		return ghost(smtImp(a.T, b.T), "Bool")
	case "<==>":
		return ghost("(= "+a.T+" "+b.T+")", "Bool")
	case "==", "!=":
		if a.isComposite() || b.isComposite() {
			return ev.fail("comparison of composite values")
		}
		if a.S != b.S && a.S != "" && b.S != "" {
			return ev.fail("sort mismatch in %s: %s vs %s", e.String(), a.S, b.S)
		}
		eq := smtEq(a.T, b.T)
		if op == "!=" {
			eq = smtNot(eq)
		}
		return ghost(eq, "Bool")
	case "<", "<=", ">", ">=":
		if a.S == "String" {
			switch op {
			case "<":
				return ghost("(str.< "+a.T+" "+b.T+")", "Bool")
			case "<=":
				return ghost("(str.<= "+a.T+" "+b.T+")", "Bool")
			}
		}
		return ghost("("+op+" "+a.T+" "+b.T+")", "Bool")
	case "+":
		if a.S == "String" {
			return ghost("(str.++ "+a.T+" "+b.T+")", "String")
		}
		return ghost("(+ "+a.T+" "+b.T+")", "Int")
	case "-":
		return ghost("(- "+a.T+" "+b.T+")", "Int")
	case "*":
		return ghost("(* "+a.T+" "+b.T+")", "Int")
	case "/":
		return ghost("(div "+a.T+" "+b.T+")", "Int")
	case "%":
		return ghost("(mod "+a.T+" "+b.T+")", "Int")
	}
	return ev.fail("unknown operator %s", op)
}

func (ev *evalCtx) sel(e *SExpr) Val {
	ex := ev.ex
	// package-qualified globals: io.EOF
	if id := e.Args[0]; id.Op == "ident" {
		if _, ok := ev.lookupName(id.Name); !ok {
			if g := ex.findGlobal(id.Name, e.Name); g != nil {
				ga := ex.globalAddr(g)
				v := ev.loadPtr(ga)
				ex.globalFacts(ev.st, ga.T, v.T, derefType(ga.Typ))
				return v
			}
			if c, ok := prelude.consts[id.Name+"_"+e.Name]; ok {
				return ghost(id.Name+"_"+e.Name, c)
			}
			return ev.fail("unknown identifier %s", id.Name)
		}
	}
	x := ev.eval(e.Args[0])
	// tuple / struct value component
	if x.isComposite() {
		if n, ok := atoi(e.Name); ok {
			if n < len(x.Elems) {
				return x.Elems[n]
			}
			return ev.fail("tuple index out of range")
		}
		if s := structOf(x.Typ); s != nil {
			for i := 0; i < s.NumFields(); i++ {
				if s.Field(i).Name() == e.Name && i < len(x.Elems) {
					return x.Elems[i]
				}
			}
		}
		return ev.fail("no component %s", e.Name)
	}
	if e.Name == "0" && x.Typ != nil {
		if _, isTuple := x.Typ.(*types.Tuple); !isTuple {
			return x // result.0 of a single-result function
		}
	}
	if x.Typ == nil {
		return ev.fail("selector .%s on ghost term", e.Name)
	}
	if _, isIface := types.Unalias(x.Typ).Underlying().(*types.Interface); isIface {
		// interface value whose dynamic value is statically known on this path
		if x.Dyn == nil {
			if kv, ok := ex.known[x.T]; ok && kv.Dyn != nil {
				x.Dyn = kv.Dyn
			}
		}
		if x.Dyn != nil {
			x = *x.Dyn
		}
	}
	el := derefType(x.Typ)
	s := structOf(el)
	if s == nil {
		return ev.fail("selector .%s on %v", e.Name, x.Typ)
	}
	p := x
	if p.Root == "" {
		p = ex.mkVal(x.Typ, x.T)
	}
	idx, emb := findField(s, e.Name)
	if idx < 0 {
		return ev.fail("no field %s in %v", e.Name, el)
	}
	for _, ei := range emb {
		p = ex.fieldPtr(p, ei)
	}
	fp := ex.fieldPtr(p, idx)
	return ev.loadPtr(fp)
}

// findField finds a (possibly promoted through embedded structs) field.
func findField(s *types.Struct, name string) (int, []int) {
	for i := 0; i < s.NumFields(); i++ {
		if s.Field(i).Name() == name {
			return i, nil
		}
	}
	for i := 0; i < s.NumFields(); i++ {
		if s.Field(i).Embedded() {
			if es := structOf(s.Field(i).Type()); es != nil {
				if j, path := findField(es, name); j >= 0 {
					return j, append([]int{i}, path...)
				}
			}
		}
	}
	return -1, nil
}

func atoi(s string) (int, bool) {
	n := 0
	if s == "" {
		return 0, false
	}
	for _, c := range s {
		if c < '0' || c > '9' {
			return 0, false
		}
		n = n*10 + int(c-'0')
	}
	return n, true
}

func (ev *evalCtx) index(e *SExpr) Val {
	ex := ev.ex
	x := ev.eval(e.Args[0])
	i := ev.eval(e.Args[1])
	if x.Typ == nil {
		return ev.fail("index on ghost term")
	}
	switch u := types.Unalias(x.Typ).Underlying().(type) {
	case *types.Map:
		// raw select (no zero default): guard with 'k in m'
		mk := mapKey(u)
		ks := sortOf(u.Key())
		var get func(t types.Type, suffix string) Val
		get = func(t types.Type, suffix string) Val {
			if s := structOf(t); s != nil {
				v := Val{Typ: t}
				for j := 0; j < s.NumFields(); j++ {
					v.Elems = append(v.Elems, get(s.Field(j).Type(), suffix+"."+s.Field(j).Name()))
				}
				return v
			}
			so := sortOf(t)
			if so == "" {
				so = "Int"
			}
			name := "Mval." + mk + suffix
			v := ex.mkVal(t, "(select "+ev.read(name, "(Array "+ks+" "+so+")", x.T)+" "+i.T+")")
			v.Origin = name
			return v
		}
		return get(u.Elem(), "")
	case *types.Slice:
		so := sortOf(u.Elem())
		if so == "" {
			so = "Int"
		}
		return ex.mkVal(u.Elem(), "("+satFn(so)+" "+x.T+" "+i.T+")")
	case *types.Basic:
		if x.S == "String" {
			return ghost("(str.to_code (str.at "+x.T+" "+i.T+"))", "Int")
		}
	}
	return ev.fail("index on %v", x.Typ)
}

func (ev *evalCtx) call(e *SExpr) Val {
	ex, st := ev.ex, ev.st
	argv := func(i int) Val { return ev.eval(e.Args[i]) }
	switch e.Name {
	case "len":
		a := argv(0)
		if a.S == "String" {
			return ghost("(str.len "+a.T+")", "Int")
		}
		if a.Typ != nil {
			if _, ok := types.Unalias(a.Typ).Underlying().(*types.Map); ok {
				_, mk, ks := ex.mapInfo(a)
				ln := "(ite (= " + a.T + " 0) 0 " + ev.read("Mlen."+mk, "Int", a.T) + ")"
				dom := "(ite (= " + a.T + " 0) ((as const (Array " + ks + " Bool)) false) " + ev.read("Mdom."+mk, "(Array "+ks+" Bool)", a.T) + ")"
				st.assume("(>= " + ln + " 0)")
				st.assume("(= (= " + ln + " 0) (forall ((k " + ks + ")) (not (select " + dom + " k))))")
				return ghost(ln, "Int")
			}
		}
		return ghost("(slen "+a.T+")", "Int")
	case "ncalls":
		if len(e.Args) != 1 || e.Args[0].Op != "str" {
			return ev.fail("ncalls needs a string literal")
		}
		key := e.Args[0].Str
		if ev.cnt != nil {
			if c, ok := ev.cnt[key]; ok {
				return ghost(c, "Int")
			}
			st.counter(key)
			return ghost(ex.cntInit[key], "Int")
		}
		return ghost(st.counter(key), "Int")
	case "closed":
		return ghost(ev.read("closed", "Bool", argv(0).T), "Bool")
	case "chlen":
		cv := argv(0)
		return ghost(ev.read(chlenArr(cv), "Int", cv.T), "Int")
	case "lockinv":
		// lockinv(obj, "lock key"): the conjunction of the lock's invariant clauses for obj
		if len(e.Args) != 2 || e.Args[1].Op != "str" {
			return ev.fail("lockinv(obj, \"key\")")
		}
		ls := ex.specs.Locks[e.Args[1].Str]
		if ls == nil {
			return ev.fail("unknown lock %s", e.Args[1].Str)
		}
		self := argv(0)
		var parts []string
		for _, c := range ls.Inv {
			sub := &evalCtx{ex: ex, st: st, fr: ev.fr, extra: map[string]Val{"self": self}, heap: ev.heap, cnt: ev.cnt}
			v := sub.eval(c.Expr)
			ev.err = append(ev.err, sub.err...)
			parts = append(parts, v.T)
		}
		return ghost(smtAnd(parts...), "Bool")
	case "tag":
		return ghost("(ch_tag "+argv(0).T+")", "Int")
	case "cap":
		return ghost("(ch_cap "+argv(0).T+")", "Int")
	case "bound":
		if len(e.Args) != 1 || e.Args[0].Op != "str" {
			return ev.fail("bound(\"name\")")
		}
		if ev.fr.pseudo && !ev.isParam(e.Args[0].Str) {
			ev.usedLocal = true
		}
		if _, ok := ev.lookupName(e.Args[0].Str); ok {
			return ghost("true", "Bool")
		}
		return ghost("false", "Bool")
	case "wg":
		// wg(x): counter of the sync.WaitGroup x (a struct-typed field)
		x := argv(0)
		return ghost(ev.read("wg."+lockKeyOf(x), "Int", x.T), "Int")
	case "isclass":
		if len(e.Args) != 2 || e.Args[1].Op != "str" {
			return ev.fail("isclass(ch, \"name\")")
		}
		if e.Args[1].Str == "none" {
			// a plain channel: not one of the declared classes (nil counts as plain)
			return ghost(fmt.Sprintf("(or (= %s 0) (= (ch_class %s) 0))", argv(0).T, argv(0).T), "Bool")
		}
		cc := ex.specs.Classes[e.Args[1].Str]
		if cc == nil {
			return ev.fail("unknown channel class %s", e.Args[1].Str)
		}
		return ghost(fmt.Sprintf("(= (ch_class %s) %d)", argv(0).T, cc.ID), "Bool")
	case "done":
		return ghost(ev.read("ctxdone", "Bool", argv(0).T), "Bool")
	case "visited":
		if ev.fr.lastIter == nil {
			return ev.fail("visited() without a range iterator")
		}
		it := ev.fr.lastIter
		mt, _, ks := ex.mapInfo(it.Elems[0])
		_ = mt
		return ghost("(select "+ev.read("visited."+ks, "(Array "+ks+" Bool)", it.T)+" "+argv(0).T+")", "Bool")
	case "held":
		if len(e.Args) != 1 || e.Args[0].Op != "str" {
			return ev.fail("held needs a string literal")
		}
		for _, h := range st.held {
			if h.Key == e.Args[0].Str {
				return ghost("true", "Bool")
			}
		}
		return ghost("false", "Bool")
	case "ite":
		c := argv(0)
		if c.T == "true" {
			return argv(1)
		}
		if c.T == "false" {
			return argv(2)
		}
		a, b := argv(1), argv(2)
		out := a
		out.T = smtIte(c.T, a.T, b.T)
		return out
	case "atlock":
		// atlock(e): value of e right after the most recent Lock in this frame
		if len(e.Args) != 1 {
			return ev.fail("atlock(e)")
		}
		if ev.fr.lockSnap == nil {
			if ev.fr.pseudo {
				// at a call site the callee's lock-time state is unknown to the caller
				v := ev.eval(e.Args[0])
				if v.isComposite() {
					return ev.fail("atlock of composite at call site")
				}
				so := v.S
				if so == "" {
					so = "Int"
				}
				v.T = st.fresh("atlock", so)
				return v
			}
			return ev.fail("atlock: no Lock executed on this path")
		}
		save := ev.heap
		ev.heap = ev.fr.lockSnap
		v := ev.eval(e.Args[0])
		ev.heap = save
		return v
	case "objinv":
		// objinv(x): x != nil and the declared object invariants of x's type hold for x
		x := argv(0)
		el := derefType(x.Typ)
		if el == nil {
			return ev.fail("objinv of non-pointer")
		}
		parts := []string{"(distinct " + x.T + " 0)"}
		for _, c := range ex.specs.ObjInvs[typeKey(el)] {
			sub := &evalCtx{ex: ex, st: st, fr: ev.fr, extra: map[string]Val{"self": x}, heap: ev.heap, cnt: ev.cnt}
			v := sub.eval(c.Expr)
			ev.err = append(ev.err, sub.err...)
			parts = append(parts, v.T)
		}
		return ghost(smtAnd(parts...), "Bool")
	case "lastret":
		// lastret("callee substring"): the value returned by the latest matching call on this path
		if len(e.Args) < 1 || e.Args[0].Op != "str" {
			return ev.fail("lastret(\"callee\" [, \"Sort\"])")
		}
		for name, rv := range ev.fr.callRets {
			if strings.Contains(name, e.Args[0].Str) {
				return rv
			}
		}
		// no such call on this path: an unconstrained value (the clause then cannot be proved)
		so := "Int"
		if len(e.Args) > 1 && e.Args[1].Op == "str" {
			so = e.Args[1].Str
		}
		return ghost(st.fresh("lastret.none", so), so)
	case "aftercall":
		// aftercall("callee substring", e): e evaluated in the heap right after the latest matching call
		// on this path; if there was none, in the function's entry heap
		if len(e.Args) != 2 || e.Args[0].Op != "str" {
			return ev.fail("aftercall(\"callee\", e)")
		}
		snap := ev.fr.entryHeap
		for name, sn := range ev.fr.callSnaps {
			if strings.Contains(name, e.Args[0].Str) {
				snap = sn
			}
		}
		if snap == nil {
			snap = map[string]string{}
		}
		save := ev.heap
		ev.heap = snap
		v := ev.eval(e.Args[1])
		ev.heap = save
		return v
	case "fresh":
		// fresh(x): x is an object allocated by this function activation (not handed in, not read
		// from the heap as it was on entry): allocation sites yield the literals -(n+1), -(n+2), ...
		if len(e.Args) != 1 {
			return ev.fail("fresh(x)")
		}
		return ghost("(< "+argv(0).T+" "+smtInt(int64(-ev.fr.entryAlloc))+")", "Bool")
	case "neverclosed":
		// neverclosed(ch): nobody ever closes this channel (nil counts)
		if len(e.Args) != 1 {
			return ev.fail("neverclosed(ch)")
		}
		return ghost("(or (= "+argv(0).T+" 0) (ch_nc "+argv(0).T+"))", "Bool")
	case "closable":
		if len(e.Args) != 1 {
			return ev.fail("closable(ch)")
		}
		return ghost("(or (= "+argv(0).T+" 0) (not (ch_nc "+argv(0).T+")))", "Bool")
	case "lastrecvok":
		// ok of the most recent channel receive of this function (false: it found the channel closed)
		if ev.fr.lastRecvOk == "" {
			return ghost("true", "Bool")
		}
		return ghost(ev.fr.lastRecvOk, "Bool")
	case "iterstart":
		// iterstart(N, expr): value of expr at the start of the current iteration of loop N
		// (at the loop's entry check, before any iteration: the current state)
		if len(e.Args) != 2 || e.Args[0].Op != "int" {
			return ev.fail("iterstart(N, e)")
		}
		n := int(e.Args[0].Int)
		snap := ev.fr.iterStart[n]
		if snap == nil {
			return ev.eval(e.Args[1])
		}
		save, saveC, saveF := ev.heap, ev.cnt, ev.fr
		ev.heap = snap
		ev.cnt = ev.fr.iterStartCnt[n]
		if ev.cnt == nil {
			ev.cnt = map[string]string{}
		}
		if nn := ev.fr.iterStartNames[n]; nn != nil {
			fc := *ev.fr
			fc.names = nn
			ev.fr = &fc
		}
		v := ev.eval(e.Args[1])
		ev.heap, ev.cnt, ev.fr = save, saveC, saveF
		return v
	case "loopentry":
		// loopentry(N, expr): value of expr at entry of loop N
		if len(e.Args) != 2 || e.Args[0].Op != "int" {
			return ev.fail("loopentry(N, e)")
		}
		snap := ev.fr.loopEntry[int(e.Args[0].Int)]
		if snap == nil {
			return ev.fail("loopentry: loop %d not entered", e.Args[0].Int)
		}
		save, saveC, saveF := ev.heap, ev.cnt, ev.fr
		ev.heap = snap
		ev.cnt = ev.fr.loopEntryCnt[int(e.Args[0].Int)]
		if ev.cnt == nil {
			ev.cnt = map[string]string{}
		}
		if nn := ev.fr.loopEntryNames[int(e.Args[0].Int)]; nn != nil {
			// program variables have the values they had when the loop was entered;
			// quantified variables and later-bound names stay visible
			fc := *ev.fr
			fc.names = nn
			ev.fr = &fc
		}
		v := ev.eval(e.Args[1])
		ev.heap, ev.cnt, ev.fr = save, saveC, saveF
		return v
	}
	if sig, ok := prelude.funcs[e.Name]; ok {
		if len(sig.args) != len(e.Args) {
			return ev.fail("%s expects %d args", e.Name, len(sig.args))
		}
		var parts []string
		for i := range e.Args {
			a := argv(i)
			if a.isComposite() {
				return ev.fail("composite argument to %s", e.Name)
			}
			if a.S != sig.args[i] && a.S != "" {
				return ev.fail("%s arg %d: sort %s, want %s", e.Name, i, a.S, sig.args[i])
			}
			parts = append(parts, a.T)
		}
		if len(parts) == 0 {
			return ghost(e.Name, sig.res)
		}
		return ghost("("+e.Name+" "+strings.Join(parts, " ")+")", sig.res)
	}
	return ev.fail("unknown spec function %s", e.Name)
}

func (ex *Exec) findGlobal(pkgName, name string) *ssa.Global {
	for _, p := range ex.prog.Prog.AllPackages() {
		if p.Pkg.Name() == pkgName {
			if g, ok := p.Members[name].(*ssa.Global); ok {
				return g
			}
		}
	}
	return nil
}

// tryClause evaluates a clause and reports whether it could be typed in this context
// (used for channel-class invariants, which only apply to channels of the matching element type).
func (ex *Exec) tryClause(st *State, fr *Frame, c *Clause, extra map[string]Val) (string, bool) {
	ev := &evalCtx{ex: ex, st: st, fr: fr, extra: extra}
	v := ev.eval(c.Expr)
	if len(ev.err) > 0 || v.S != "Bool" {
		return "true", false
	}
	return v.T, true
}

// evalAtCallSite evaluates a callee clause in the caller's state; ok is false when the clause
// talks about the callee's local variables (then it says nothing to the caller).
func (ex *Exec) evalAtCallSite(st *State, pf *Frame, c *Clause) (string, bool) {
	ev := &evalCtx{ex: ex, st: st, fr: pf}
	v := ev.eval(c.Expr)
	if ev.usedLocal {
		return "true", false
	}
	for _, m := range ev.err {
		ex.specError("at a call to %s: %s  [clause %s]", pf.key, m, c.Text)
	}
	if v.S != "Bool" {
		return "true", false
	}
	return v.T, true
}
