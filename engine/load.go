package main

import (
	"fmt"
	"go/types"
	"os"
	"sort"
	"strings"

	"golang.org/x/tools/go/packages"
	"golang.org/x/tools/go/ssa"
	"golang.org/x/tools/go/ssa/ssautil"
)

// The packages of avos-io/goat that are hand written and in scope.
var scopePkgs = map[string]string{
	"github.com/avos-io/goat":                 "goat",
	"github.com/avos-io/goat/internal":        "internal",
	"github.com/avos-io/goat/internal/client": "client",
	"github.com/avos-io/goat/internal/server": "server",
	"github.com/avos-io/goat/types":           "types",
}

const modPath = "github.com/avos-io/goat"

type Program struct {
	Dir   string
	Pkgs  []*packages.Package
	Prog  *ssa.Program
	SSA   map[string]*ssa.Package  // by import path
	Funcs map[string]*ssa.Function // by short key
	Keys  map[*ssa.Function]string
}

func loadProgram(dir string) (*Program, error) {
	cfg := &packages.Config{
		Mode:       packages.LoadAllSyntax,
		Dir:        dir,
		BuildFlags: []string{"-tags=verif"},
		Env: append(os.Environ(), "GOFLAGS=-mod=mod", "GOPROXY=off", "GOSUMDB=off",
			"GOTOOLCHAIN=local"),
		Tests: false,
	}
	pkgs, err := packages.Load(cfg, "./...")
	if err != nil {
		return nil, err
	}
	var errs []string
	packages.Visit(pkgs, nil, func(p *packages.Package) {
		if strings.HasPrefix(p.PkgPath, modPath) {
			for _, e := range p.Errors {
				errs = append(errs, e.Error())
			}
		}
	})
	if len(errs) > 0 {
		return nil, fmt.Errorf("package errors:\n%s", strings.Join(errs, "\n"))
	}
	prog, _ := ssautil.AllPackages(pkgs, ssa.GlobalDebug)
	prog.Build()
	p := &Program{Dir: dir, Pkgs: pkgs, Prog: prog, SSA: map[string]*ssa.Package{},
		Funcs: map[string]*ssa.Function{}, Keys: map[*ssa.Function]string{}}
	for _, sp := range prog.AllPackages() {
		p.SSA[sp.Pkg.Path()] = sp
	}
	for fn := range ssautil.AllFunctions(prog) {
		k := funcKey(fn)
		if k == "" {
			continue
		}
		if old, ok := p.Funcs[k]; ok && old != fn {
			// wrappers / thunks share names; prefer the one with a body and no synthetic marker
			if old.Synthetic == "" {
				continue
			}
		}
		p.Funcs[k] = fn
		p.Keys[fn] = k
	}
	return p, nil
}

// funcKey is the short stable name used in contract files:
//
//	goat.parseGrpcTimeout, goat.(*handler).resetStream, client.(*clientStream).readLoop$1
//
// Only functions of the module get keys via this route; others use fullName.
func funcKey(fn *ssa.Function) string {
	pkg := fn.Package()
	if pkg == nil {
		if fn.Parent() != nil {
			pkg = fn.Parent().Package()
		}
	}
	if pkg == nil {
		// method of instantiated/external type
		return ""
	}
	path := pkg.Pkg.Path()
	short, ok := scopePkgs[path]
	if !ok {
		if strings.HasPrefix(path, modPath+"/gen/goatorepo") {
			short = "goatorepo"
		} else {
			return ""
		}
	}
	if fn.Synthetic != "" && !strings.Contains(fn.Name(), "$") {
		// skip wrappers (bound method closures, thunks)
		if strings.HasPrefix(fn.Synthetic, "wrapper") || strings.HasPrefix(fn.Synthetic, "bound") || strings.HasPrefix(fn.Synthetic, "thunk") {
			return ""
		}
	}
	return short + "." + fn.RelString(pkg.Pkg)
}

// fullName gives a package-qualified name for any function (used for externals).
func fullName(fn *ssa.Function) string {
	return fn.String()
}

func inScope(fn *ssa.Function) bool {
	pkg := fn.Package()
	if pkg == nil && fn.Parent() != nil {
		pkg = fn.Parent().Package()
	}
	if pkg == nil {
		return false
	}
	_, ok := scopePkgs[pkg.Pkg.Path()]
	return ok
}

func isGenProto(fn *ssa.Function) bool {
	pkg := fn.Package()
	if pkg == nil {
		return false
	}
	return strings.HasPrefix(pkg.Pkg.Path(), modPath+"/gen/goatorepo")
}

func (p *Program) scopeFuncKeys() []string {
	var ks []string
	for k, fn := range p.Funcs {
		if inScope(fn) && fn.Blocks != nil && fn.Name() != "init" && !strings.HasPrefix(fn.Name(), "init#") {
			ks = append(ks, k)
		}
	}
	sort.Strings(ks)
	return ks
}

// typeKey: name for a named type: client.RpcMultiplexer, goatorepo.Rpc, sync.Mutex,
// google.golang.org/grpc/stats.Handler (full import path outside the module)
func typeKey(t types.Type) string {
	t = types.Unalias(t)
	switch t := t.(type) {
	case *types.Named:
		o := t.Obj()
		if o.Pkg() == nil {
			return o.Name()
		}
		if s, ok := scopePkgs[o.Pkg().Path()]; ok {
			return s + "." + o.Name()
		}
		if strings.HasPrefix(o.Pkg().Path(), modPath+"/gen/goatorepo") {
			return "goatorepo." + o.Name()
		}
		return o.Pkg().Path() + "." + o.Name()
	case *types.Pointer:
		return "*" + typeKey(t.Elem())
	}
	return types.TypeString(t, func(p *types.Package) string { return p.Path() })
}
