package main

import (
	"fmt"
	"os"
)

func dbgNames(fr *Frame, where string) {
	if os.Getenv("GOATVC_DBG") == "" {
		return
	}
	for k, v := range fr.names {
		fmt.Printf("DBG %s %s: name %s = %s (%v)\n", where, fr.key, k, v.T, v.Typ)
	}
}
