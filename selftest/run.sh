#!/bin/sh
# Must-fail corpus: every mutant patch is applied to a scratch copy of /repo (never to /repo) and
# the named property checks must report a VIOLATION there. usage: selftest/run.sh [name-prefix]
cd "$(dirname "$0")/.." || exit 2
export GOFLAGS=-mod=mod GOPROXY=off GOSUMDB=off GOTOOLCHAIN=local
[ -x bin/goatvc ] || (cd engine && go build -o ../bin/goatvc .) || exit 2
fail=0; n=0
for meta in selftest/mutants/${1:-}*.json; do
  name=$(basename "$meta" .json)
  patch="selftest/mutants/$name.patch"
  props=$(python3 -c "import json;print(' '.join(json.load(open('$meta'))['properties']))")
  scratch=$(mktemp -d /tmp/goatvc-mut.XXXXXX)
  rsync -a --exclude .git /repo/ "$scratch/"
  if ! (cd "$scratch" && patch -p1 -s < "/verif/$patch"); then echo "SKIP $name (patch does not apply)"; rm -rf "$scratch"; continue; fi
  if ! (cd "$scratch" && go build ./... >/dev/null 2>&1); then echo "SKIP $name (does not compile)"; rm -rf "$scratch"; continue; fi
  for p in $props; do
    n=$((n+1))
    out=$(VERIF_DIR=/verif bin/goatvc check -repo "$scratch" -prop "$p" -no-evidence 2>&1); rc=$?
    if [ $rc -eq 1 ] && echo "$out" | grep -q "^VIOLATION property=$p"; then
      echo "ok    $name $p: $(echo "$out" | grep -c '^VIOLATION') violation(s): $(echo "$out" | grep '^  FAILED' | head -2 | awk '{print $2}' | tr '\n' ' ')"
    else
      echo "MISS  $name $p (exit $rc)"; fail=$((fail+1))
    fi
  done
  rm -rf "$scratch"
done
echo "selftest: $n checks, $fail missed"
[ $fail -eq 0 ]
