#!/bin/sh
# Must-fail corpus: every mutant patch is applied to a scratch copy of a snapshot of /repo (never to
# /repo) and the named property checks must report a VIOLATION there.
# usage: selftest/run.sh [name-prefix]      (SELFTEST_JOBS mutants at a time, default 4)
cd "$(dirname "$0")/.." || exit 2
export GOFLAGS=-mod=mod GOPROXY=off GOSUMDB=off GOTOOLCHAIN=local
[ -x bin/goatvc ] || (cd engine && go build -o ../bin/goatvc .) || exit 2
snap=$(mktemp -d /tmp/goatvc-snap.XXXXXX)
rsync -a --exclude .git /repo/ "$snap/"
out=$(mktemp -d /tmp/goatvc-selftest.XXXXXX)
ls selftest/mutants/${1:-}*.json | xargs -P "${SELFTEST_JOBS:-4}" -I{} sh selftest/one.sh {} "$snap" "$out"
cat "$out"/*.txt
n=$(cat "$out"/*.txt | grep -c "^ok\|^MISS")
fail=$(cat "$out"/*.txt | grep -c "^MISS\|^SKIP")
rm -rf "$snap" "$out"
echo "selftest: $n checks, $fail missed or skipped"
[ "$fail" -eq 0 ]
