#!/bin/sh
# one mutant: selftest/one.sh <meta.json> <snapshot dir> <output dir>
meta="$1"; snap="$2"; out="$3"
name=$(basename "$meta" .json)
patchf="/verif/selftest/mutants/$name.patch"
props=$(python3 -c "import json,sys;print(' '.join(json.load(open(sys.argv[1]))['properties']))" "$meta")
scratch=$(mktemp -d /tmp/goatvc-mut.XXXXXX)
rsync -a "$snap/" "$scratch/"
{
  if ! (cd "$scratch" && patch -p1 -s < "$patchf"); then
    echo "SKIP $name (patch does not apply)"
  elif ! (cd "$scratch" && go build ./... >/dev/null 2>&1); then
    echo "SKIP $name (does not compile)"
  else
    for p in $props; do
      o=$(VERIF_DIR=/verif /verif/bin/goatvc check -repo "$scratch" -prop "$p" -no-evidence 2>&1); rc=$?
      if [ $rc -eq 1 ] && echo "$o" | grep -q "^VIOLATION property=$p"; then
        echo "ok    $name $p: $(echo "$o" | grep -c '^VIOLATION') violation(s): $(echo "$o" | grep '^  FAILED' | head -2 | awk '{print $2}' | tr '\n' ' ')"
      else
        echo "MISS  $name $p (exit $rc)"
      fi
    done
  fi
} > "$out/$name.txt" 2>&1
rm -rf "$scratch"
