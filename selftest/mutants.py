#!/usr/bin/env python3
"""Regenerates selftest/mutants/*.patch from the table below (textual replacement in /repo files)."""
import subprocess, os, json, tempfile, shutil, sys
here = os.path.dirname(os.path.abspath(__file__))
M = []
def mut(name, props, file, old, new):
    M.append((name, props, file, old, new))

mut("c08_swap_units", "C08", "server.go",
    "\tcase 'm':\n\t\t\treturn time.Millisecond\n\t\tcase 'u':\n\t\t\treturn time.Microsecond",
    "\tcase 'm':\n\t\t\treturn time.Microsecond\n\t\tcase 'u':\n\t\t\treturn time.Millisecond")
mut("c08_no_saturate", "C08", "server.go", "\tif time.Duration(val) > maxDuration/unit {", "\tif false && time.Duration(val) > maxDuration/unit {")
mut("c08_sign_accepted", "C08", "server.go", "\tif timeout[0] == '+' || timeout[0] == '-' {", "\tif timeout[0] == '+' {")
mut("c05_wrong_key", "C05,C01", "internal/client/multiplexer.go", "\th, ok := rm.handlers[rpc.GetId()]", "\th, ok := rm.handlers[rpc.GetId()+1]")
mut("c14_no_defer_unregister", "C14", "internal/client/multiplexer.go", "\t\tclose(gone)\n\t\trm.unregisterHandler(streamId)\n", "\t\tclose(gone)\n")
mut("c09_close_skipped", "C09", "internal/client/multiplexer.go", "\t\t\tclose(h.ch)\n\t\t\tdelete(rm.handlers, id)", "\t\t\t_ = h\n\t\t\tdelete(rm.handlers, id)")
mut("c03_ok_status_needs_body", "C03,C13", "internal/client/multiplexer.go", "if resp.Status != nil && resp.Status.Code != int32(codes.OK) {", "if resp.Status != nil && (resp.Status.Code != int32(codes.OK) || resp.Body == nil) {")
mut("c03_eof_on_empty_message", "C03,C02", "internal/client/stream.go", "\tif st.GetCode() == int32(codes.OK) {\n\t\tif rpc.GetReset_() != nil {", "\tif st.GetCode() == int32(codes.OK) || st.GetMessage() == \"\" {\n\t\tif rpc.GetReset_() != nil {")
mut("c09_register_unconditional", "C09", "internal/client/multiplexer.go", "\tif rm.rErr != nil {\n\t\treturn rm.rErr\n\t}\n\trm.handlers[id] = respHandler", "\trm.handlers[id] = respHandler")
mut("c13_unregister_keeps_entry", "C13,C14", "internal/client/multiplexer.go", "\tdelete(rm.handlers, id)\n}\n\nfunc (rm *RpcMultiplexer) readErrorIfDone", "}\n\nfunc (rm *RpcMultiplexer) readErrorIfDone")
mut("c13_nil_header_deref", "C13", "internal/client/multiplexer.go", "resp.GetHeader().GetHeaders()", "resp.GetHeader().Headers")
mut("c01_reply_body_of_request", "C01", "internal/client/multiplexer.go", "\t\t\treturn resp.Body, nil", "\t\t\treturn body, nil")
mut("c06_unary_request_with_trailer", "C06,C01", "internal/client/multiplexer.go", "\t\tBody:   body,\n\t}", "\t\tBody:   body,\n\t\tTrailer: &goatorepo.Trailer{},\n\t}")

mut("c17_delete_by_name", "C17", "proxy.go", "if cur, ok := p.clients[cmd.id]; ok && cur == cmd.client {", "if _, ok := p.clients[cmd.id]; ok {")
mut("c17_source_check_dropped", "C17", "proxy.go", "if rpc.Header == nil || rpc.Header.Source != source {", "if rpc.Header == nil {")
mut("c17_panic_on_bad_source", "C17", "proxy.go", "\t\tlog.Warn().Msgf(\"Bad Rpc: %v\", rpc)\n\t\treturn", "\t\tlog.Panic().Msgf(\"Bad Rpc: %v\", rpc)\n\t\treturn")
mut("c16_record_twice", "C16", "proxy.go", "\t\trpc.Header.ProxyRecord = append(rpc.Header.ProxyRecord, p.id)", "\t\trpc.Header.ProxyRecord = append(append(rpc.Header.ProxyRecord, p.id), p.id)")
mut("c16_wrong_queue", "C16", "proxy.go", "\tclient, ok := p.clients[destination]", "\tclient, ok := p.clients[rpc.Header.Source]")
mut("c16_empty_next", "C16", "proxy.go", "if len(rpc.Header.ProxyNext) > 0 {", "if rpc.Header.ProxyNext != nil {")
mut("c12_no_header_guard", "C12", "server.go", "\t\tif rpc.GetHeader() == nil {\n\t\t\tlog.Warn().Msgf(\"Server: received RPC without a header: ignoring message\")\n\t\t\tcontinue\n\t\t}\n", "")
mut("c12_body_unknown_no_reset", "C12", "server.go", "\t\tsendReset = true\n\t\treturn nil\n\t}\n\n\tif rpc.GetTrailer() != nil {", "\t\treturn nil\n\t}\n\n\tif rpc.GetTrailer() != nil {")
mut("c12_panic_on_bad_metadata", "C12", "server.go", "\t\tlog.Error().Err(err).Msg(\"Server: failed to get context from headers\")", "\t\tlog.Panic().Err(err).Msg(\"Server: failed to get context from headers\")")
mut("c03_unary_ok_code_kept", "C03", "server.go", "\t\tif st.Code() == codes.OK {\n\t\t\t// We know an error *did* occur, so re-write (only) the code\n\t\t\tstpb := st.Proto()\n\t\t\tstpb.Code = int32(codes.Internal)\n\t\t\tst = status.FromProto(stpb)\n\t\t}\n\t\trespStatus", "\t\trespStatus")
mut("c06_response_not_swapped", "C06,C01", "server.go", "\t\tSource:      rpc.Header.Destination,\n\t\tDestination: rpc.Header.Source,\n\t}\n\tif len(rpc.Header.ProxyRecord) > 1 {\n\t\trespHeader", "\t\tSource:      rpc.Header.Source,\n\t\tDestination: rpc.Header.Destination,\n\t}\n\tif len(rpc.Header.ProxyRecord) > 1 {\n\t\trespHeader")
mut("c14_unregister_wrong_key", "C14", "server.go", "\tdelete(h.streams, id)\n}", "\tdelete(h.streams, id+1)\n}")
mut("c10_no_defer_unregister", "C10,C14", "server.go", "\tdefer h.unregisterStream(streamId)\n", "")
mut("c05_server_wrong_stream", "C05", "server.go", "\tif handler, ok := h.streams[rpc.Id]; ok {\n\t\tif resetStream {", "\tif handler, ok := h.streams[rpc.Id+1]; ok {\n\t\tif resetStream {")
mut("c07_reset_does_not_cancel", "C07", "server.go", "\t\tif resetStream {\n\t\t\thandler.cancel()\n\t\t} else {", "\t\tif resetStream {\n\t\t\t_ = handler.cancel\n\t\t} else {")
mut("c06_sendmsg_with_trailer", "C06", "internal/server/stream.go", "\t\tBody: &goatorepo.Body{\n\t\t\tData: body.Materialize(),\n\t\t},\n\t}\n\n\tif !ss.protected.headersSent {", "\t\tBody: &goatorepo.Body{\n\t\t\tData: body.Materialize(),\n\t\t},\n\t\tTrailer: &goatorepo.Trailer{},\n\t}\n\n\tif !ss.protected.headersSent {")
mut("c04_sendmsg_forgets_headers_sent", "C04,C06", "internal/server/stream.go", "\t\trpc.Header.Headers = internal.ToKeyValue(ss.protected.headers...)\n\t\tss.protected.headersSent = true\n", "\t\trpc.Header.Headers = internal.ToKeyValue(ss.protected.headers...)\n")
mut("c03_trailer_ok_rewrite_removed", "C03", "internal/server/stream.go", "\t\tif st.Code() == codes.OK {", "\t\tif false && st.Code() == codes.OK {")
mut("c02_server_eof_on_error_status", "C02,C03", "internal/server/stream.go", "\t\tif st.GetCode() == int32(codes.OK) {\n\t\t\treturn io.EOF", "\t\tif st.GetCode() == int32(codes.OK) || st.GetCode() == int32(codes.Canceled) {\n\t\t\treturn io.EOF")

mut("c15_unlocked_read_done", "C15", "internal/client/stream.go", "func (cs *clientStream) readErrorIfDone() (bool, error) {\n\tcs.protected.Lock()\n\tdefer cs.protected.Unlock()\n", "func (cs *clientStream) readErrorIfDone() (bool, error) {\n")
mut("c15_plain_counter", "C15,C05", "internal/client/multiplexer.go", "\tstreamId := atomic.AddUint64(&rm.streamCounter, 1)\n\n\trespChan := make(chan *goatorepo.Rpc, 1)\n\tif err := rm.registerHandler(streamId, respChan); err != nil {\n\t\treturn 0,", "\trm.streamCounter++\n\tstreamId := rm.streamCounter\n\n\trespChan := make(chan *goatorepo.Rpc, 1)\n\tif err := rm.registerHandler(streamId, respChan); err != nil {\n\t\treturn 0,")
mut("c15_clients_without_mutex", "C15", "proxy.go", "\tp.mutex.Lock()\n\tp.clients[id] = client\n\tp.mutex.Unlock()", "\tp.clients[id] = client")
mut("c15_done_after_unlock", "C15,C13", "internal/client/stream.go", "\t\tcs.protected.done = true\n\t\tcs.protected.rErr = rErr", "\t\tcs.protected.rErr = rErr\n\t\tcs.protected.Unlock()\n\t\tcs.protected.done = true\n\t\tcs.protected.Lock()")
mut("c15_streams_read_unlocked", "C15", "server.go", "func (h *handler) cancelAndWaitForStreams() {\n\th.mu.Lock()\n\tfor len(h.streams) > 0 {", "func (h *handler) cancelAndWaitForStreams() {\n\tfor len(h.streams) > 0 {\n\t\th.mu.Lock()")
mut("c18_cancel_keeps_entry", "C18", "demux.go", "\tdelete(gsd.conns.value, id)\n}", "}")
mut("c18_run_lookup_wrong_key", "C18", "demux.go", "\tconn, ok := gsd.conns.value[id]", "\tconn, ok := gsd.conns.value[id+\"x\"]")
mut("c19_ws_text_accepted", "C19", "websocket.go", "\tif typ != websocket.MessageBinary {\n\t\treturn nil, errNonBinaryWebsocketMessage\n\t}\n", "\t_ = errNonBinaryWebsocketMessage\n\t_ = typ\n")
mut("c19_ws_write_text", "C19", "websocket.go", "return ws.conn.Write(ctx, websocket.MessageBinary, data)", "return ws.conn.Write(ctx, websocket.MessageText, data)")
mut("c19_http_deliver_before_source_check", "C19", "http.go", "\tif rpc.Header == nil || rpc.Header.Source == \"\" {", "\tif rpc.Header == nil {")
mut("c19_chan_write_blocking", "C19", "channel.go", "\t\tselect {\n\t\tcase <-ctx.Done():\n\t\t\treturn ctx.Err()\n\t\tcase <-done:\n\t\t\treturn fmt.Errorf(\"write channel closed\")\n\t\tcase outQ <- rpc:\n\t\t\treturn nil\n\t\t}", "\t\toutQ <- rpc\n\t\treturn nil")
mut("c20_end_error_dropped", "C20", "internal/util.go", "\t\tif appErr != nil && !errors.Is(appErr, io.EOF) {", "\t\tif appErr != nil && errors.Is(appErr, io.EOF) {")
mut("c20_begin_twice", "C20", "internal/util.go", "\t\tsh.HandleRPC(ctx, statsBegin)\n", "\t\tsh.HandleRPC(ctx, statsBegin)\n\t\tsh.HandleRPC(ctx, statsBegin)\n")
mut("c14_failed_open_no_teardown", "C14", "client.go", "\t\tteardown()\n\t\treturn nil, err", "\t\treturn nil, err")
mut("c10_unary_worker_plain_handoff", "C10", "server.go", "\t\t\t\t\tselect {\n\t\t\t\t\tcase h.writeChan <- resp:\n\t\t\t\t\tcase <-h.ctx.Done():\n\t\t\t\t\t\t// the writer is gone: nobody will take the reply\n\t\t\t\t\t\treturn\n\t\t\t\t\t}\n", "\t\t\t\t\th.writeChan <- resp\n")
mut("c10_unary_handler_under_serve_ctx", "C10", "server.go", "resp := h.processUnaryRpc(unaryClientCtx, args.info, args.md, args.rpc)", "resp := h.processUnaryRpc(context.WithoutCancel(unaryClientCtx), args.info, args.md, args.rpc)")
mut("c10_unary_ctx_never_cancelled", "C10", "server.go", "\tdefer unaryClientCtxCancel()\n", "\t_ = unaryClientCtxCancel\n")
mut("c14_stream_reader_ignores_stream_ctx", "C14,C07", "server.go", "\t\tcase <-ctx.Done():\n\t\t\treturn nil, ctx.Err()\n\t\t}\n\t}\n\twriterFunc", "\t\tcase <-h.ctx.Done():\n\t\t\treturn nil, h.ctx.Err()\n\t\t}\n\t}\n\twriterFunc")
mut("c11_sendmsg_leaks_lock", "C11", "internal/server/stream.go", "\tss.protected.Lock()\n\tdefer ss.protected.Unlock()\n\n\tbody, err := ss.codec.Marshal(m)", "\tss.protected.Lock()\n\n\tbody, err := ss.codec.Marshal(m)")
mut("c17_write_failure_without_connection", "C17", "proxy.go", "\tcase c.toServer <- command{id: c.id, client: c, err: err}:\n", "\tcase c.toServer <- command{id: c.id, err: err}:\n")
mut("c02_client_drops_when_full", "C02", "internal/client/multiplexer.go", "\tcase <-h.gone:\n", "\tdefault:\n")
mut("c06_sendmsg_asks_for_reset", "C06", "internal/client/stream.go", "\tif err != nil {\n\t\tcs.teardown(false)\n\t\treturn err\n\t}\n\trpc := goatorepo.Rpc{", "\tif err != nil {\n\t\tcs.teardown(true)\n\t\treturn err\n\t}\n\trpc := goatorepo.Rpc{")
mut("c06_reset_written_by_read_loop", "C06,C03", "server.go", "\tselect {\n\tcase h.writeChan <- reset:\n\t\treturn nil\n\tcase <-h.ctx.Done():\n\t\treturn context.Cause(h.ctx)\n\t}\n}", "\treturn h.rw.Write(h.ctx, reset)\n}")
mut("c11_reset_sent_under_the_registry_lock", "C11", "server.go", "\t\tlog.Info().Msgf(\"did not expect body: calling RST stream %d\", rpc.Id)\n\t\tsendReset = true\n\t\treturn nil", "\t\tlog.Info().Msgf(\"did not expect body: calling RST stream %d\", rpc.Id)\n\t\treturn h.resetStream(rpc)")
mut("c18_cancel_closes_data_queue", "C18", "demux.go", "\t\tclose(conn.done)\n", "\t\tclose(conn.done)\n\t\tclose(conn.r)\n")
mut("c18_run_ignores_cancel", "C18", "demux.go", "\t\tcase <-conn.done:\n\t\t\t// cancelled while waiting for its reader\n", "")
mut("c19_unregister_closes_delivery_queue", "C19", "http.go", "\t\tclose(conn.closed)\n", "\t\tclose(conn.closed)\n\t\tclose(conn.readCh)\n")
mut("c19_chan_write_ignores_done", "C18", "channel.go", "\t\tcase <-done:\n\t\t\treturn fmt.Errorf(\"write channel closed\")\n", "")
mut("c11_server_handoff_ignores_gone", "C11", "server.go", "\t\t\tcase <-handler.gone:\n\t\t\t\t// The handler has returned without reading this message.\n\t\t\t\t// Waiting for it here would deadlock with unregisterStream,\n\t\t\t\t// which needs h.mu.\n", "")
mut("c11_stream_unregisters_before_it_cancels", "C11", "server.go", "\tdefer handler.cancel()\n\n\tvar appErr error", "\tvar appErr error")
mut("c11_client_owner_unregisters_without_signal", "C11", "internal/client/multiplexer.go", "\t\tclose(gone)\n\t\trm.unregisterHandler(streamId)", "\t\trm.unregisterHandler(streamId)")
mut("c11_client_stream_teardown_without_signal", "C11", "internal/client/multiplexer.go", "\t\tgoneOnce.Do(func() { close(gone) })\n", "\t\t_ = &goneOnce\n")
mut("c14_refused_open_keeps_its_context", "C14", "server.go", "\t\tcancel() // no stream will use this context\n", "")
mut("c19_new_connection_starts_idle", "C19", "http.go", "\t\tconn.bumpActivity()\n\n", "")
mut("c12_empty_chain_guard_tests_nil_only", "C12,C20", "chained.go", "func ChainUnaryInterceptor(interceptors ...grpc.UnaryServerInterceptor) ServerOption {\n\tif len(interceptors) == 0 {", "func ChainUnaryInterceptor(interceptors ...grpc.UnaryServerInterceptor) ServerOption {\n\tif interceptors == nil {")
mut("c17_failure_report_without_escape", "C17", "proxy.go", "\tselect {\n\tcase c.toServer <- command{id: c.id, client: c, err: err}:\n\tcase <-ctx.Done():\n\t}\n", "\tc.toServer <- command{id: c.id, client: c, err: err}\n")
mut("c10_serve_no_drain", "C10", "server.go", "\th.cancelAndWaitForStreams()\n", "")

only = sys.argv[1] if len(sys.argv) > 1 else ""
os.makedirs(os.path.join(here, 'mutants'), exist_ok=True)
for name, props, file, old, new in M:
    if only and not name.startswith(only):
        continue
    src = open(os.path.join('/repo', file)).read()
    if src.count(old) != 1:
        print("SKIP %s: pattern occurs %d times in %s" % (name, src.count(old), file)); continue
    d = tempfile.mkdtemp()
    try:
        for side, text in (('a', src), ('b', src.replace(old, new))):
            os.makedirs(os.path.join(d, side, os.path.dirname(file)), exist_ok=True)
            open(os.path.join(d, side, file), 'w').write(text)
        r = subprocess.run(['diff', '-u', 'a/' + file, 'b/' + file], cwd=d, capture_output=True, text=True)
        open(os.path.join(here, 'mutants', name + '.patch'), 'w').write(r.stdout)
        json.dump({"name": name, "properties": props.split(','), "file": file}, open(os.path.join(here, 'mutants', name + '.json'), 'w'))
    finally:
        shutil.rmtree(d)
print("mutants:", len(M))
