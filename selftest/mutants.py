#!/usr/bin/env python3
"""Regenerates selftest/mutants/*.patch from the table below (textual replacement in /repo files)."""
import subprocess, os, json, tempfile, shutil, sys
here = os.path.dirname(os.path.abspath(__file__))
M = []
def mut(name, props, file, old, new):
    M.append((name, props, file, old, new))

mut("c08_swap_units", "C08", "server.go",
    "\tcase 'm':\n\t\t\treturn time.Millisecond\n\t\tcase 'u':\n\t\t\treturn time.Microsecond",
    "\tcase 'm':\n\t\t\treturn time.Microsecond\n\t\tcase 'u':\n\t\t\treturn time.Millisecond")
mut("c08_no_saturate", "C08", "server.go", "\tif time.Duration(val) > maxDuration/unit {", "\tif false && time.Duration(val) > maxDuration/unit {")
mut("c08_sign_accepted", "C08", "server.go", "\tif timeout[0] == '+' || timeout[0] == '-' {", "\tif timeout[0] == '+' {")
mut("c05_wrong_key", "C05,C01", "internal/client/multiplexer.go", "\tch, ok := rm.handlers[rpc.GetId()]", "\tch, ok := rm.handlers[rpc.GetId()+1]")
mut("c14_no_defer_unregister", "C14", "internal/client/multiplexer.go", "\tdefer rm.unregisterHandler(streamId)\n", "")
mut("c09_close_skipped", "C09", "internal/client/multiplexer.go", "\t\t\tclose(ch)\n\t\t\tdelete(rm.handlers, id)", "\t\t\t_ = ch\n\t\t\tdelete(rm.handlers, id)")
mut("c03_ok_status_needs_body", "C03,C13", "internal/client/multiplexer.go", "if resp.Status != nil && resp.Status.Code != int32(codes.OK) {", "if resp.Status != nil && (resp.Status.Code != int32(codes.OK) || resp.Body == nil) {")
mut("c03_eof_on_empty_message", "C03,C02", "internal/client/stream.go", "\tif st.GetCode() == int32(codes.OK) {\n\t\tif rpc.GetReset_() != nil {", "\tif st.GetCode() == int32(codes.OK) || st.GetMessage() == \"\" {\n\t\tif rpc.GetReset_() != nil {")
mut("c09_register_unconditional", "C09", "internal/client/multiplexer.go", "\tif rm.rErr != nil {\n\t\treturn rm.rErr\n\t}\n\trm.handlers[id] = c", "\trm.handlers[id] = c")
mut("c13_unregister_keeps_entry", "C13,C14", "internal/client/multiplexer.go", "\tdelete(rm.handlers, id)\n}\n\nfunc (rm *RpcMultiplexer) readErrorIfDone", "}\n\nfunc (rm *RpcMultiplexer) readErrorIfDone")
mut("c13_nil_header_deref", "C13", "internal/client/multiplexer.go", "resp.GetHeader().GetHeaders()", "resp.GetHeader().Headers")
mut("c01_reply_body_of_request", "C01", "internal/client/multiplexer.go", "\t\t\treturn resp.Body, nil", "\t\t\treturn body, nil")
mut("c06_unary_request_with_trailer", "C06,C01", "internal/client/multiplexer.go", "\t\tBody:   body,\n\t}", "\t\tBody:   body,\n\t\tTrailer: &goatorepo.Trailer{},\n\t}")

only = sys.argv[1] if len(sys.argv) > 1 else ""
os.makedirs(os.path.join(here, 'mutants'), exist_ok=True)
for name, props, file, old, new in M:
    if only and not name.startswith(only):
        continue
    src = open(os.path.join('/repo', file)).read()
    if src.count(old) != 1:
        print("SKIP %s: pattern occurs %d times in %s" % (name, src.count(old), file)); continue
    d = tempfile.mkdtemp()
    try:
        for side, text in (('a', src), ('b', src.replace(old, new))):
            os.makedirs(os.path.join(d, side, os.path.dirname(file)), exist_ok=True)
            open(os.path.join(d, side, file), 'w').write(text)
        r = subprocess.run(['diff', '-u', 'a/' + file, 'b/' + file], cwd=d, capture_output=True, text=True)
        open(os.path.join(here, 'mutants', name + '.patch'), 'w').write(r.stdout)
        json.dump({"name": name, "properties": props.split(','), "file": file}, open(os.path.join(here, 'mutants', name + '.json'), 'w'))
    finally:
        shutil.rmtree(d)
print("mutants:", len(M))
