#!/bin/sh
# runs every property check once (no evidence) and prints one line each
cd /verif
for p in $(python3 -c "import json;print(' '.join(json.loads(l)['id'] for l in open('properties.jsonl')))"); do
  out=$(bin/goatvc check -prop $p -no-evidence 2>&1); rc=$?
  echo "rc=$rc $(echo "$out" | tail -1)"
  echo "$out" | grep "^  FAILED\|SPEC-ERROR\|^ERROR" | head -5
done
