#!/usr/bin/env python3
"""Prepares a round of independently seeded changes: one prompt file and one scratch worktree of /repo
(contract files removed) per property, under /tmp/seed<N>. usage: seed_round.py <N> <Cxx> ...
The sub-agents get only the prompt file; nothing from /verif."""
import json, os, re, glob, sys, subprocess
n = sys.argv[1]; ids = sys.argv[2:]
base = '/tmp/seed' + n
os.makedirs(base, exist_ok=True)
props = {json.loads(l)['id']: json.loads(l) for l in open('/verif/properties.jsonl')}
prior = {}
for d in sorted(glob.glob('/verif/seeded/C*-*')):
    pid = os.path.basename(d).split('-')[0]
    diff = open(d + '/patch.diff').read()
    files = re.findall(r'^\+\+\+ b/(\S+)', diff, re.M)
    funcs = sorted(set(re.findall(r'^@@.*@@ func (?:\([^)]*\) )?(\w+)', diff, re.M)))
    notes = open(d + '/NOTES.md').read() if os.path.exists(d + '/NOTES.md') else ''
    first = ''
    for line in notes.splitlines():
        line = line.strip().lstrip('#').strip()
        if len(line) > 40: first = line[:180]; break
    prior.setdefault(pid, []).append("- %s (%s): %s" % (', '.join(files), ', '.join(funcs) or '?', first))
for pid in ids:
    p = props[pid]
    txt = f"""You are helping to evaluate a verification tool. Your job is to write TWO small, realistic, property-breaking changes ("A" and "B") to the Go library in your scratch git worktree {base}/{pid}-wt (a checkout of avos-io/goat: gRPC over any reliable transport). Work ONLY inside that directory and {base}/{pid}-out. Do not read or touch /verif or /repo, do not look at git history (git log/show), and do not use `git stash` (the object store is shared) or `pkill`/`killall`.

The property your changes must break (this text is all you are given about it):

ID: {pid}
TITLE: {p['title']}
STATEMENT: {p['statement']}
QUANTIFIED OVER: {p['quantifier']['text']}

What each change must be:
1. The kind of change a developer could plausibly make by mistake: a lost check, a lock scope change, a wrong boundary, an "optimisation", a refactor that drops a statement or reorders two, two sites that each look fine alone, a wrong variable, an error path that forgets cleanup. No sabotage comments, no obviously silly edits. Keep it small (typically 1-15 changed lines), in non-test, non-generated .go files.
2. With the change applied the code still compiles and the EXISTING test suite still passes: run `export GOFLAGS=-mod=mod GOPROXY=off GOSUMDB=off GOTOOLCHAIN=local; go build ./... && go test -vet=off -count=1 ./...` at least 3 times (the existing test TestClientResetStream is known to be flaky at ~1-10% on the unchanged code; ignore failures of that test only).
3. The breakage needs something specific to manifest (an unusual input, a particular interleaving, a fault at a particular point, a multi-step sequence) - which is why the existing tests miss it.
4. You provide a demonstration: a new Go test file (name it zz_demo_<x>_test.go) that FAILS with your change applied and PASSES on the unchanged code (run it at least 3 times each way; bound every wait with timeouts; no network beyond loopback/in-memory).
5. A and B must differ from each other in mechanism and preferably in function/file, and must differ from these changes that were ALREADY tried for this property (do something new - look at functions and mechanisms not in this list):
{chr(10).join(prior.get(pid, ['- (none)']))}

Note that the unchanged code may itself have weaknesses related to this property; if you notice one, mention it in NOTES.md but make sure your demo passes on the unchanged code.

Deliverables, for X in {{A,B}}, in {base}/{pid}-out/X/ :
- patch.diff : `git diff` of ONLY your change to the library (not the demo), applies with `patch -p1` / `git apply` to the clean worktree
- the demo test file
- DEMO.txt : where the demo file goes (directory relative to the repo root) and the exact `go test -vet=off -count=1 -timeout 120s -run '<regex>' ./<dir>` command
- NOTES.md : first line = one-sentence description of the change (file, function, what breaks); then what it needs to manifest, why the suite misses it, and the observed outputs with/without the change
When done, restore the worktree to the unchanged code (`git checkout -- . && git clean -fdq`). Your final message should summarise A and B in a few sentences each.
"""
    open(f'{base}/PROMPT-{pid}.txt', 'w').write(txt)
    wt = f'{base}/{pid}-wt'
    subprocess.run(['git', '-C', '/repo', 'worktree', 'add', '-q', '--detach', wt, 'HEAD'], check=True)
    subprocess.run('git rm -q -f contracts_verif.go internal/contracts_verif.go internal/client/contracts_verif.go internal/server/contracts_verif.go && git -c user.name=scratch -c user.email=s@x commit -qm "scratch baseline"', shell=True, cwd=wt, check=True)
    os.makedirs(f'{base}/{pid}-out/A', exist_ok=True); os.makedirs(f'{base}/{pid}-out/B', exist_ok=True)
print('prepared', len(ids), 'in', base)
