#!/usr/bin/env python3
"""Confirms sub-agent seeded changes (in /tmp/seed/Cxx-out/{A,B}) against the CURRENT /repo and imports the
confirmed ones into /verif/seeded/<Cxx>-<V>/ (patch.diff, demo, meta.json, NOTES.md).
Confirmation = patch applies and compiles, existing suite passes with it, demo fails with it, demo passes without it.
usage: import_seeds.py [Cxx ...]"""
import os, re, sys, json, shutil, subprocess, tempfile, glob
ENV = dict(os.environ, GOFLAGS="-mod=mod", GOPROXY="off", GOSUMDB="off", GOTOOLCHAIN="local")
def run(cmd, cwd, timeout=600):
    try:
        r = subprocess.run(cmd, cwd=cwd, env=ENV, shell=True, capture_output=True, text=True, timeout=timeout)
        return r.returncode, (r.stdout + r.stderr)
    except subprocess.TimeoutExpired:
        return 124, "TIMEOUT"
def main():
    want = [a for a in sys.argv[1:] if not a.startswith('--')]
    base = '/tmp/seed6' if '--round6' in sys.argv else '/tmp/seed5' if '--round5' in sys.argv else '/tmp/seed4' if '--round4' in sys.argv else '/tmp/seed3' if '--round3' in sys.argv else ('/tmp/seed2' if '--round2' in sys.argv else '/tmp/seed')
    for d in sorted(glob.glob(base + '/C*-out/[AB]')):
        pid = re.search(r'(C\d+)-out', d).group(1); var = os.path.basename(d)
        if base.endswith('seed2'):
            var = {'A': 'C', 'B': 'D'}[var]
        if base.endswith('seed3'):
            var = {'A': 'E', 'B': 'F'}[var]
        if base.endswith('seed4'):
            var = {'A': 'G', 'B': 'H'}[var]
        if base.endswith('seed5'):
            var = {'A': 'I', 'B': 'J'}[var]
        if base.endswith('seed6'):
            var = {'A': 'K', 'B': 'L'}[var]
        if want and pid not in want: continue
        name = "%s-%s" % (pid, var)
        out = os.path.join('/verif/seeded', name)
        if os.path.exists(os.path.join(out, 'meta.json')):
            print(name, "already imported"); continue
        demos = [f for f in os.listdir(d) if f.endswith('_test.go')]
        if not demos or not os.path.exists(os.path.join(d, 'patch.diff')):
            print(name, "SKIP: missing files"); continue
        demotxt = open(os.path.join(d, 'DEMO.txt')).read() if os.path.exists(os.path.join(d, 'DEMO.txt')) else ""
        scratch = tempfile.mkdtemp(prefix='seedchk-')
        try:
            subprocess.run(['rsync', '-a', '--exclude', '.git', '/repo/', scratch + '/'], check=True)
            placed = []
            runs = []
            for demo in demos:
                m = re.search(r'((?:[\w./-]+/)?)' + re.escape(demo), demotxt.replace('/tmp/seed6', '').replace('/tmp/seed5', '').replace('/tmp/seed4', '').replace('/tmp/seed3', '').replace('/tmp/seed2', '').replace('/tmp/seed', ''))
                sub = ''
                for mm in re.finditer(r'((?:internal/(?:client|server)|internal)/)' + re.escape(demo), demotxt):
                    sub = mm.group(1); break
                src = open(os.path.join(d, demo)).read()
                pk = re.search(r'^package (\w+)', src, re.M).group(1)
                if pk.endswith('_test'): pk = pk[:-5]
                mcmd = re.search(r"go test[^\n]*?\s\./(internal(?:/\w+)?)/?\s*$", demotxt, re.M)
                if mcmd and pk in ('client', 'server', 'internal'):
                    sub = mcmd.group(1) + '/'
                if not sub:
                    sub = {'client': 'internal/client/', 'server': 'internal/server/', 'internal': 'internal/'}.get(pk, '')
                placed.append((demo, sub))
                rx = None
                for mm in re.finditer(r"-run[ =]+['\"]?([^'\" ]+)['\"]?", demotxt):
                    rx = mm.group(1); break
                if not rx:
                    rx = '|'.join(re.findall(r'^func (Test\w+)\(', src, re.M))
                race = ' -race' if re.search(r'go test[^\n]*-race', demotxt) else ''
                runs.append("go test -vet=off -count=1%s -timeout 300s -run '%s' ./%s" % (race, rx, sub or '.'))
            rc, o = run('patch -p1 -s < %s/patch.diff' % d, scratch)
            if rc != 0:
                print(name, "SKIP: patch does not apply to the current /repo:", o.strip()[:200]); continue
            rc, o = run('go build ./... && go vet ./... >/dev/null 2>&1; go build ./...', scratch)
            if rc != 0:
                print(name, "SKIP: does not compile", o[-300:]); continue
            ok = False
            for attempt in range(3):
                rc, o = run('go test -vet=off -count=1 ./... 2>&1 | grep -E "^(ok|FAIL|---|panic)"', scratch)
                if 'FAIL' not in o and 'panic' not in o:
                    ok = True; break
                if 'TestClientResetStream' not in o: break
            if not ok:
                print(name, "SKIP: existing suite fails with the patch:", o[-300:]); continue
            for demo, sub in placed:
                shutil.copy(os.path.join(d, demo), os.path.join(scratch, sub, demo))
            with_rc = [run(c, scratch)[0] for c in runs]
            rc, o = run('patch -p1 -R -s < %s/patch.diff' % d, scratch)
            without = [run(c, scratch) for c in runs]
            without_rc = [w[0] for w in without]
            if not any(r != 0 for r in with_rc):
                print(name, "SKIP: demo does not fail with the patch", with_rc); continue
            if any(r != 0 for r in without_rc):
                print(name, "SKIP: demo fails WITHOUT the patch on the current /repo", without_rc, without[0][1][-300:]); continue
            os.makedirs(out, exist_ok=True)
            shutil.copy(os.path.join(d, 'patch.diff'), out)
            for demo, sub in placed:
                shutil.copy(os.path.join(d, demo), out)
            if os.path.exists(os.path.join(d, 'NOTES.md')):
                shutil.copy(os.path.join(d, 'NOTES.md'), out)
            head = subprocess.run(['git', '-C', '/repo', 'rev-parse', '--short', 'HEAD'], capture_output=True, text=True).stdout.strip()
            json.dump({"id": name, "breaks_property": pid, "demo_files": [{"file": dm, "place_in": sb or "."} for dm, sb in placed],
                       "demo_cmds": runs, "needs_to_manifest": "see NOTES.md (written by the sub-agent that produced the change)",
                       "confirmed_against_repo_commit": head,
                       "what_was_run": ["rsync copy of /repo", "patch -p1 < patch.diff; go build ./...", "go test -vet=off -count=1 ./... (passes with the patch)",
                                        "demo with the patch: exit codes %s (fails)" % with_rc, "demo without the patch: exit codes %s (passes)" % without_rc]},
                      open(os.path.join(out, 'meta.json'), 'w'), indent=1)
            print(name, "CONFIRMED and imported")
        finally:
            shutil.rmtree(scratch, ignore_errors=True)
main()
