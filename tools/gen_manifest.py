#!/usr/bin/env python3
"""Regenerates /verif/MANIFEST.json from tools/claims.json (what is claimed, at which level)."""
import json, subprocess, os
root = os.path.dirname(os.path.dirname(os.path.abspath(__file__)))
props = [json.loads(l)['id'] for l in open(os.path.join(root, 'properties.jsonl'))]
claims = json.load(open(os.path.join(root, 'tools', 'claims.json')))
hooks = subprocess.run(['git', '-C', '/repo', 'log', '--format=%H %s'], capture_output=True, text=True).stdout.splitlines()
hook_commits = [l.split()[0] for l in hooks if l.split(' ', 1)[1].startswith('verif:')]
checks, na = [], []
for p in props:
    c = claims.get(p)
    if not c or not c.get('claimed'):
        na.append({"property_id": p, "reason": (c or {}).get('reason', 'check not yet built in this round; see DESIGN.md section 10')})
        continue
    checks.append({
        "property_id": p,
        "quick_cmd": "./check %s quick" % p,
        "thorough_cmd": "./check %s thorough" % p,
        "evidence_file": "/verif/evidence/%s.json" % p,
        "replay_cmd_template": "./check replay {path}",
        "engine": "goatvc",
        "level_claimed": {"category": "proof", "text": c['text'], "design_ref": c.get('design_ref', 'DESIGN.md section 10, ' + p)},
        "level_note": c['note'],
        "technique": c.get('technique', 'contract-based deductive verification: go/ssa weakest-precondition-style symbolic execution of the real functions against //@ contracts, obligations discharged by z3/cvc5'),
    })
m = {
    "version": 1,
    "setup_cmd": "cd engine && GOFLAGS=-mod=mod GOPROXY=off GOSUMDB=off GOTOOLCHAIN=local go build -o ../bin/goatvc .",
    "hooks": {"guard": "verif",
              "enable": "goatvc loads /repo with build tag verif; contracts are //@ comments in //go:build verif files (*contracts_verif.go) that contain no executable code",
              "baseline_off_cmd": "cd /repo && GOFLAGS=-mod=mod GOPROXY=off GOSUMDB=off GOTOOLCHAIN=local go test -json -vet=off -count=1 -timeout 25m ./...",
              "source_commits": hook_commits, "add_only": True},
    "engines": [{"name": "goatvc", "path": "engine", "serves_properties": [c['property_id'] for c in checks],
                 "kind_free_text": "contract-based deductive verifier for Go written for this task: loads /repo (tag verif) with go/packages+go/ssa, reads //@ contracts, symbolically executes each function under contract path by path (loops cut at invariants, callees by contract), emits SMT-LIB obligations, races z3 5.1 / z3 4.8.12 / cvc5; counterexamples are replayed on the real code with go test -overlay"}],
    "checks": checks,
    "not_applicable": na,
    "notes": "Exit codes: 0 all claimed obligations discharged (KNOWN-FINDING lines allowed); 1 VIOLATION; 2 the check itself could not decide (contract drift, vacuity, load error)."
}
json.dump(m, open(os.path.join(root, 'MANIFEST.json'), 'w'), indent=1)
print("checks:", [c['property_id'] for c in checks])
