#!/usr/bin/env python3
"""Runs the registered checks against every confirmed seeded change (applied to a scratch copy of /repo,
never to /repo itself) and writes seeded/MATRIX.json: which checks report a VIOLATION for which change.
usage: seed_matrix.py [--all-props] [seed-id ...]"""
import os, sys, json, glob, subprocess, tempfile, shutil, re, concurrent.futures as cf
ENV = dict(os.environ, GOFLAGS="-mod=mod", GOPROXY="off", GOSUMDB="off", GOTOOLCHAIN="local", VERIF_DIR="/verif")
ALL = [json.loads(l)['id'] for l in open('/verif/properties.jsonl')]
SNAP = tempfile.mkdtemp(prefix='seedsnap-')
subprocess.run(['rsync', '-a', '--exclude', '.git', '/repo/', SNAP + '/'], check=True)
def one(seed, props):
    d = os.path.join('/verif/seeded', seed)
    scratch = tempfile.mkdtemp(prefix='seedmx-')
    res = {}
    try:
        subprocess.run(['rsync', '-a', '--exclude', '.git', SNAP + '/', scratch + '/'], check=True)
        r = subprocess.run('patch -p1 -s < %s/patch.diff' % d, cwd=scratch, shell=True, capture_output=True, text=True)
        if r.returncode != 0:
            return seed, {"stale": "patch no longer applies to the current tree (its target was rewritten by a later repair); earlier results kept"}
        for p in props:
            r = subprocess.run(['/verif/bin/goatvc', 'check', '-repo', scratch, '-prop', p, '-no-evidence'], env=ENV, capture_output=True, text=True)
            viol = [l for l in r.stdout.splitlines() if l.startswith('  FAILED')]
            res[p] = {"exit": r.returncode, "failed": [v.split()[1] for v in viol][:6]}
    finally:
        shutil.rmtree(scratch, ignore_errors=True)
    return seed, res
def main():
    args = [a for a in sys.argv[1:] if not a.startswith('--')]
    allp = '--all-props' in sys.argv
    seeds = sorted(os.path.basename(os.path.dirname(p)) for p in glob.glob('/verif/seeded/*/meta.json'))
    if args: seeds = [s for s in seeds if s in args or s.split('-')[0] in args]
    out_path = '/verif/seeded/MATRIX.json'
    matrix = json.load(open(out_path)) if os.path.exists(out_path) else {}
    jobs = []
    with cf.ThreadPoolExecutor(max_workers=4) as ex:
        for s in seeds:
            own = json.load(open('/verif/seeded/%s/meta.json' % s))['breaks_property']
            props = ALL if allp else [own]
            jobs.append(ex.submit(one, s, props))
        for j in cf.as_completed(jobs):
            s, res = j.result()
            matrix.setdefault(s, {}).update(res)
            own = s.split('-')[0]
            caught = [p for p, r in res.items() if isinstance(r, dict) and r.get('exit') == 1]
            print(s, "caught by", caught if caught else "NONE", "| own:", res.get(own))
            sys.stdout.flush()
            json.dump(matrix, open(out_path, 'w'), indent=1, sort_keys=True)
try:
    main()
finally:
    shutil.rmtree(SNAP, ignore_errors=True)
